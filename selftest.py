"""selftest.py -- validating the simulator itself

  verif selftest determinism [engine...]     same seeds twice, different worker slicing: identical per-plan execution hashes
  verif selftest sensitivity [id...]         every patch under seeded/ and mutants/ must be caught by its owning check

Sensitivity applies each patch to /repo (git apply), runs the owning property's quick check (and the other
checks listed in its meta.json), and undoes the patch straight afterwards (git checkout -- .), as the task
brief prescribes.  Nothing is ever committed to /repo from here.
"""
import os, sys, json, subprocess, glob, time, re


def sh(cmd, **kw):
    return subprocess.run(cmd, stdout=subprocess.PIPE, stderr=subprocess.STDOUT, **kw)


def determinism(V, engines):
    engines = engines or ["stream", "zone", "zoneh", "hist", "files", "env", "sort"]
    variants = {"stream": ["small", "asan"], "hist": ["small", "asan"], "sort": ["asan", "plain"]}
    try:
        V.build(sorted(set(v for e in engines for v in variants.get(e, ["asan", "plain"]))))
    except V.BuildError as e:
        V.log(str(e))
        return 2
    bad = 0
    for e in engines:
        for variant in variants.get(e, ["asan", "plain"]):
            n = 640 if e in ("zone", "zoneh") else 400
            runs = []
            for slicing in (1, 7):
                per = (n + slicing - 1) // slicing
                procs = []
                for w in range(slicing):
                    cmd = [V.simrun(variant), "run", e, "--seed", "7", "--start", str(w * per), "--count", str(min(per, n - w * per)),
                           "--tier", "quick", "--variant", variant, "--replays", "/tmp", "--opt", "hashes=1"]
                    procs.append(subprocess.Popen(cmd, stdout=subprocess.PIPE, stderr=subprocess.DEVNULL))
                hashes = {}
                for p in procs:
                    out, _ = p.communicate()
                    for l in out.decode(errors="replace").splitlines():
                        try:
                            j = json.loads(l)
                        except ValueError:
                            continue
                        if j.get("type") == "hash":
                            hashes[j["index"]] = j["h"]
                runs.append(hashes)
            diff = [i for i in runs[0] if runs[0].get(i) != runs[1].get(i)]
            missing = len(runs[0]) != n or len(runs[1]) != n
            print("determinism %-6s %-6s: %d plans x 2 executions (1 worker vs 7 workers), %d differing%s" %
                  (e, variant, n, len(diff), " (INCOMPLETE)" if missing else ""))
            if diff or missing:
                bad += 1
                print("  first differing indices:", sorted(diff)[:10])
    return 2 if bad else 0


def load_cases(V, ids):
    cases = []
    for d in sorted(glob.glob(os.path.join(V.VERIF, "seeded", "*"))):
        meta = os.path.join(d, "meta.json")
        patch = os.path.join(d, "patch.diff")
        if os.path.exists(meta) and os.path.exists(patch):
            m = json.load(open(meta))
            cases.append({"id": os.path.basename(d), "patch": patch, "property": m["property"], "also": m.get("also_checks", []),
                          "expect": m.get("expected", "caught")})
    for pth in sorted(glob.glob(os.path.join(V.VERIF, "mutants", "*.patch"))):
        name = os.path.basename(pth)[:-6]
        prop = name.split("-")[0]
        cases.append({"id": "mutant-" + name, "patch": pth, "property": prop, "also": [], "expect": "caught"})
    if ids:
        cases = [c for c in cases if c["id"] in ids or c["property"] in ids]
    return cases


def sensitivity(V, ids):
    r = sh(["git", "-C", V.REPO, "status", "--porcelain", "--untracked-files=no"])
    if r.stdout.strip():
        V.log("refusing: /repo has uncommitted changes to tracked files")
        return 2
    cases = load_cases(V, ids)
    results = []
    rc = 0
    for c in cases:
        t0 = time.time()
        a = sh(["git", "-C", V.REPO, "apply", c["patch"]])
        if a.returncode != 0:
            print("sensitivity %-28s: patch does not apply: %s" % (c["id"], a.stdout.decode()[-200:].strip()))
            results.append(dict(c, outcome="patch-does-not-apply"))
            rc = 1
            continue
        try:
            outcome = {}
            for prop in [c["property"]] + c["also"]:
                p = sh([os.path.join(V.VERIF, "verif"), "check", prop, "--tier", "quick"], env=dict(os.environ, VERIF_SEED="1"))
                out = p.stdout.decode(errors="replace")
                vio = [l for l in out.splitlines() if l.startswith("VIOLATION")]
                outcome[prop] = {"exit": p.returncode, "violations": len(vio), "first": (vio[0][:400] if vio else ""),
                                 "harness": [l[:200] for l in out.splitlines() if l.startswith("HARNESS") or l.startswith("BUILD-ERROR")][:2]}
        finally:
            sh(["git", "-C", V.REPO, "checkout", "--", "."])
        caught = [p for p, o in outcome.items() if o["exit"] == 1 and o["violations"] > 0]
        res = "caught by " + ",".join(caught) if caught else "MISSED"
        print("sensitivity %-28s (%s): %s  [%.0fs]" % (c["id"], c["property"], res, time.time() - t0), flush=True)
        for p, o in outcome.items():
            if o["first"]:
                print("    %s: %s" % (p, o["first"][:300]))
            if o["harness"]:
                print("    %s: %s" % (p, o["harness"]))
        results.append({"id": c["id"], "property": c["property"], "caught_by": caught, "outcome": outcome, "expected": c["expect"]})
        if not caught and c["expect"] == "caught":
            rc = 1
    # leave the build in step with the clean tree
    try:
        V.build()
    except V.BuildError:
        pass
    with open(os.path.join(V.VERIF, "seeded", "RESULTS.json"), "w") as f:
        json.dump(results, f, indent=1)
    return rc


def main(V, argv):
    if not argv:
        print(__doc__)
        return 2
    if argv[0] == "determinism":
        return determinism(V, argv[1:])
    if argv[0] == "sensitivity":
        return sensitivity(V, argv[1:])
    print(__doc__)
    return 2
