#!/bin/bash
# trymut.sh <seeded-id> <engine> <variant> <count> [seed] -- apply a seeded patch to /repo, run one engine slice, undo
id=$1; eng=$2; var=$3; cnt=$4; seed=${5:-1}
cd /verif
git -C /repo apply /verif/seeded/$id/patch.diff || exit 3
./verif build $var 2>&1 | tail -1
build/$var/simrun run $eng --seed $seed --start 0 --count $cnt --tier quick --variant $var --replays /verif/replays 2>&1 | python3 -c "
import sys,json
n=0
for l in sys.stdin:
    try: j=json.loads(l)
    except: print(l.rstrip()[:300]); continue
    if j.get('type')=='summary': print('summary plans',j['plans'],'inc',j['incarnations'], 'wall', round(j['wall_s']))
    elif n<6:
        n+=1; print(j.get('type'), j.get('cls'), (j.get('detail') or '')[:400])
"
git -C /repo checkout -- .
./verif build $var 2>&1 | tail -1   # leave the build in step with the clean tree
