/* core.cc -- plan text I/O, forked incarnations, result collection */
#include "sim.h"
#include <stdio.h>
#include <stdlib.h>
#include <string.h>
#include <errno.h>
#include <unistd.h>
#include <fcntl.h>
#include <signal.h>
#include <sys/mman.h>
#include <sys/wait.h>
#include <sys/time.h>
#include <sys/resource.h>
#include <sys/stat.h>
#include <sstream>
#include <malloc.h>
#if defined(__has_feature)
# if __has_feature(address_sanitizer)
#  define SIM_ASAN_CORE 1
# endif
#endif
#if !defined(SIM_ASAN_CORE) && defined(__SANITIZE_ADDRESS__)
# define SIM_ASAN_CORE 1
#endif
#if !defined(SIM_ASAN_CORE)
# define SIM_ASAN_CORE 0
#endif
#include <array>

extern "C" {
#define TOOL(n) int n##_main(int, char **) __attribute__((weak));
TOOL(dconv) TOOL(dadd) TOOL(dround) TOOL(ddiff) TOOL(dgrep) TOOL(dzone) TOOL(dsort) TOOL(dtest) TOOL(dseq)
TOOL(tzmapcc) TOOL(strptime)
#undef TOOL
const char *__asan_default_options(void) __attribute__((used, visibility("default")));
const char *__asan_default_options(void)
{
	return "exitcode=77:detect_leaks=0:abort_on_error=0:allocator_may_return_null=1:"
	       "handle_abort=1:detect_stack_use_after_return=0:max_allocation_size_mb=4096:"
	       "print_summary=1:symbolize=1:fast_unwind_on_malloc=1:external_symbolizer_path=/usr/bin/llvm-symbolizer-14";
}
/* each tool defines its own `prog'; those are local to the tool objects here, dt-io.c sees this one */
const char *prog = "dateutils";
void __real__exit(int) __attribute__((noreturn));
ssize_t __real_read(int, void *, size_t);
int __real_close(int);
int __real_dup2(int, int);
pid_t __real_waitpid(pid_t, int *, int);
int __real_fstat(int, struct stat *);
off_t __real_lseek(int, off_t, int);
}

namespace sim {

void set_shared(Shared *s);

/* ---------------- hex / quoting ---------------- */
std::string hexenc(const std::string &s)
{
	static const char *d = "0123456789abcdef";
	std::string r;
	r.reserve(s.size() * 2);
	for (unsigned char c : s) {
		r += d[c >> 4];
		r += d[c & 15];
	}
	return r;
}
std::string hexdec(const std::string &s)
{
	std::string r;
	auto v = [](char c) { return c >= '0' && c <= '9' ? c - '0' : c >= 'a' && c <= 'f' ? c - 'a' + 10 : c >= 'A' && c <= 'F' ? c - 'A' + 10 : 0; };
	for (size_t i = 0; i + 1 < s.size(); i += 2)
		r += (char)(v(s[i]) << 4 | v(s[i + 1]));
	return r;
}
std::string cquote(const std::string &s, size_t max)
{
	std::string r;
	for (unsigned char c : s) {
		if (r.size() >= max) {
			r += "...";
			break;
		}
		if (c == '\\')
			r += "\\\\";
		else if (c == '\n')
			r += "\\n";
		else if (c == '\r')
			r += "\\r";
		else if (c == '\t')
			r += "\\t";
		else if (c < 32 || c >= 127) {
			char b[8];
			snprintf(b, sizeof(b), "\\x%02x", c);
			r += b;
		} else
			r += (char)c;
	}
	return r;
}

/* ---------------- plan text ---------------- */
static std::string opline(const char *tag, const Op &o)
{
	std::ostringstream os;
	os << tag << " " << o.kind;
	for (auto v : o.a)
		os << " " << v;
	if (!o.s.empty())
		os << " hex:" << hexenc(o.s);
	return os.str();
}
std::string Plan::text() const
{
	std::ostringstream os;
	os << "plan v1 engine=" << engine << " variant=" << variant << "\n";
	if (!cls.empty())
		os << "class " << cls << "\n";
	for (auto &a : argv)
		os << "arg hex:" << hexenc(a) << "   # " << cquote(a, 60) << "\n";
	for (auto &kv : env)
		os << "env " << kv.first << " hex:" << hexenc(kv.second) << "   # " << cquote(kv.second, 60) << "\n";
	os << "clock start=" << clock.start << " usec=" << clock.usec << " step_us=" << clock.step_us
	   << " fail=" << clock.fail << " per_read_s=" << clock.per_read_s << "\n";
	for (auto &j : clock.jumps)
		os << "jump " << j.first << " " << j.second << "\n";
	for (auto &f : files)
		os << "file " << f.path << " " << (f.absent ? "absent" : "hex:" + hexenc(f.data)) << "\n";
	if (has_input)
		os << "input hex:" << hexenc(input) << "\n";
	for (auto &o : sched)
		os << opline("rd", o) << "\n";
	for (auto &o : ops)
		os << opline("op", o) << "\n";
	for (auto &kv : par)
		os << "par " << kv.first << " hex:" << hexenc(kv.second) << "   # " << cquote(kv.second, 60) << "\n";
	os << "end\n";
	return os.str();
}
static bool parse_op(std::istringstream &is, Op &o)
{
	if (!(is >> o.kind))
		return false;
	std::string t;
	while (is >> t) {
		if (t[0] == '#')
			break;
		if (t.compare(0, 4, "hex:") == 0)
			o.s = hexdec(t.substr(4));
		else
			o.a.push_back(strtoll(t.c_str(), NULL, 10));
	}
	return true;
}
static std::string kv_get(const std::string &tok, const char *key)
{
	size_t n = strlen(key);
	if (tok.compare(0, n, key) == 0 && tok.size() > n && tok[n] == '=')
		return tok.substr(n + 1);
	return std::string();
}
bool Plan::parse(const std::string &txt, Plan &p, std::string &err)
{
	std::istringstream all(txt);
	std::string line;
	p = Plan();
	bool seen_hdr = false;
	while (std::getline(all, line)) {
		std::istringstream is(line);
		std::string tag;
		if (!(is >> tag) || tag[0] == '#')
			continue;
		if (tag == "plan") {
			std::string t;
			while (is >> t) {
				std::string v;
				if (!(v = kv_get(t, "engine")).empty())
					p.engine = v;
				if (!(v = kv_get(t, "variant")).empty())
					p.variant = v;
			}
			seen_hdr = true;
		} else if (tag == "class") {
			is >> p.cls;
		} else if (tag == "arg") {
			std::string t;
			is >> t;
			p.argv.push_back(t.compare(0, 4, "hex:") == 0 ? hexdec(t.substr(4)) : t);
		} else if (tag == "env") {
			std::string k, t;
			is >> k >> t;
			p.env[k] = t.compare(0, 4, "hex:") == 0 ? hexdec(t.substr(4)) : t;
		} else if (tag == "clock") {
			std::string t;
			while (is >> t) {
				std::string v;
				if (!(v = kv_get(t, "start")).empty())
					p.clock.start = strtoll(v.c_str(), NULL, 10);
				if (!(v = kv_get(t, "usec")).empty())
					p.clock.usec = strtoll(v.c_str(), NULL, 10);
				if (!(v = kv_get(t, "step_us")).empty())
					p.clock.step_us = strtoll(v.c_str(), NULL, 10);
				if (!(v = kv_get(t, "fail")).empty())
					p.clock.fail = atoi(v.c_str());
				if (!(v = kv_get(t, "per_read_s")).empty())
					p.clock.per_read_s = strtoll(v.c_str(), NULL, 10);
			}
		} else if (tag == "jump") {
			long long a, b;
			is >> a >> b;
			p.clock.jumps.push_back({a, b});
		} else if (tag == "file") {
			SimFile f;
			std::string t;
			is >> f.path >> t;
			if (t == "absent")
				f.absent = true;
			else if (t.compare(0, 4, "hex:") == 0)
				f.data = hexdec(t.substr(4));
			p.files.push_back(f);
		} else if (tag == "input") {
			std::string t;
			is >> t;
			p.input = t.compare(0, 4, "hex:") == 0 ? hexdec(t.substr(4)) : t;
			p.has_input = true;
		} else if (tag == "rd") {
			Op o;
			if (parse_op(is, o))
				p.sched.push_back(o);
		} else if (tag == "op") {
			Op o;
			if (parse_op(is, o))
				p.ops.push_back(o);
		} else if (tag == "par") {
			std::string k, t;
			is >> k >> t;
			p.par[k] = t.compare(0, 4, "hex:") == 0 ? hexdec(t.substr(4)) : t;
		} else if (tag == "end") {
			break;
		} else {
			err = "unknown plan line: " + line;
			return false;
		}
	}
	if (!seen_hdr) {
		err = "no plan header";
		return false;
	}
	return true;
}
uint64_t Plan::hash() const
{
	/* the class line is an annotation of replay files, not part of the plan */
	Plan q = *this;
	q.cls.clear();
	return hash_str(1, q.text());
}
int64_t Plan::ipar(const char *k, int64_t d) const
{
	auto it = par.find(k);
	return it == par.end() ? d : strtoll(it->second.c_str(), NULL, 10);
}

/* ---------------- tools ---------------- */
typedef int (*mainfn)(int, char **);
static mainfn tool_fn(const std::string &n)
{
#define T(x) if (n == #x) return x##_main;
	T(dconv) T(dadd) T(dround) T(ddiff) T(dgrep) T(dzone) T(dsort) T(dtest) T(dseq) T(tzmapcc) T(strptime)
#undef T
	/* long aliases */
	if (n == "dateconv") return dconv_main;
	if (n == "dateadd") return dadd_main;
	if (n == "dateround") return dround_main;
	if (n == "tzmap") return tzmapcc_main;
	return nullptr;
}
bool have_tool(const std::string &n) { return tool_fn(n) != nullptr; }
int call_tool_main(const std::vector<std::string> &argv)
{
	mainfn f = argv.empty() ? nullptr : tool_fn(argv[0]);
	if (!f) {
		fprintf(stderr, "simrun: no such tool main: %s\n", argv.empty() ? "(none)" : argv[0].c_str());
		return 127;
	}
	{
		static std::string progname;
		progname = argv[0];
		prog = progname.c_str();
	}
	/* argv strings must be writable and live for the whole run */
	std::vector<char *> av;
	for (auto &a : argv) {
		char *c = (char *)malloc(a.size() + 1);
		memcpy(c, a.c_str(), a.size() + 1);
		av.push_back(c);
	}
	av.push_back(nullptr);
	return f((int)argv.size(), av.data());
}

/* ---------------- incarnations ---------------- */
static Shared *g_shared_map;
static Shared *shared_map(void)
{
	if (!g_shared_map) {
		void *p = mmap(NULL, sizeof(Shared), PROT_READ | PROT_WRITE, MAP_SHARED | MAP_ANONYMOUS, -1, 0);
		if (p == MAP_FAILED) {
			perror("simrun: shared mmap");
			exit(2);
		}
		g_shared_map = (Shared *)p;
	}
	return g_shared_map;
}

static std::string slurp_fd(int fd, size_t max)
{
	std::string r;
	struct stat st;
	if (__real_fstat(fd, &st) == 0 && st.st_size > 0) {
		size_t n = (size_t)st.st_size;
		if (n > max)
			n = max;
		r.resize(n);
		__real_lseek(fd, 0, SEEK_SET);
		size_t got = 0;
		while (got < n) {
			ssize_t k = __real_read(fd, &r[got], n - got);
			if (k <= 0)
				break;
			got += k;
		}
		r.resize(got);
	}
	return r;
}

uint64_t RunResult::hash() const
{
	if (hang)	/* where exactly the budget struck is not part of the behaviour */
		return hash_mix(0x4a46, (uint64_t)cur_op);
	uint64_t h = hash_str(7, out);
	h = hash_mix(h, (uint64_t)(int64_t)exit_code);
	h = hash_mix(h, (uint64_t)signal);
	h = hash_mix(h, loghash);
	h = hash_mix(h, nevents);
	h = hash_mix(h, flags);
	for (auto &r : res)
		for (auto v : r)
			h = hash_mix(h, (uint64_t)v);
	h = hash_str(h, blob);
	return h;
}
std::string RunResult::status_str() const
{
	char b[96];
	if (hang)
		snprintf(b, sizeof(b), "hang(cpu budget)");
	else if (asan)
		snprintf(b, sizeof(b), "sanitizer-report");
	else if (signal)
		snprintf(b, sizeof(b), "signal %d", signal);
	else
		snprintf(b, sizeof(b), "exit %d", exit_code);
	return b;
}

static int make_memfd(const char *name)
{
	int fd = memfd_create(name, 0);
	if (fd < 0) {
		perror("simrun: memfd_create");
		exit(2);
	}
	return fd;
}

/* uninitialised locals and fresh heap blocks see the same bytes in a worker's incarnation and in a
 * fresh-process replay, whatever ran before the fork */
static void __attribute__((noinline)) scrub_stack(void)
{
	volatile char pad[192 * 1024];
	for (size_t i = 0; i < sizeof(pad); i++)
		pad[i] = (char)0xa5;
	__asm__ volatile("" ::: "memory");
}

static RunResult run_plan_once(const Plan &p, const Limits &lim, std::function<int()> body);

RunResult run_plan(const Plan &p, const Limits &lim, std::function<int()> body)
{
	RunResult r = run_plan_once(p, lim, body);
	if (r.hang && lim.cpu_s < 60.0) {
		/* CPU time, not wall time -- but a slow case must not pass for a hang: confirm with five times the budget */
		Limits l2 = lim;
		l2.cpu_s = lim.cpu_s * 5;
		RunResult r2 = run_plan_once(p, l2, body);
		return r2;
	}
	return r;
}

static RunResult run_plan_once(const Plan &p, const Limits &lim, std::function<int()> body)
{
	RunResult r;
	Shared *sh = shared_map();
	/* reset the header part only; res/blob are length-prefixed */
	sh->nevents = 0;
	sh->loghash = 0;
	sh->flags = 0;
	sh->note[0] = 0;
	memset(sh->probes, 0, sizeof(sh->probes));
	sh->cur_op = -1;
	sh->nres = 0;
	sh->done = 0;
	sh->trace_len = 0;
	sh->trace_trunc = 0;
	sh->blob_len = 0;

	static int ofd = -1, efd = -1;
	if (ofd < 0) {
		ofd = make_memfd("simout");
		efd = make_memfd("simerr");
	}
	if (ftruncate(ofd, 0) < 0 || ftruncate(efd, 0) < 0) {
		perror("simrun: ftruncate");
		exit(2);
	}
	__real_lseek(ofd, 0, SEEK_SET);
	__real_lseek(efd, 0, SEEK_SET);
	fflush(NULL);
	pid_t pid = fork();
	if (pid < 0) {
		perror("simrun: fork");
		exit(2);
	}
	if (pid == 0) {
		/* ---- the incarnation ---- */
		__real_dup2(ofd, 1);
		__real_dup2(efd, 2);
		struct rlimit rl;
		rl.rlim_cur = (rlim_t)(lim.cpu_s + 0.999);
		rl.rlim_max = rl.rlim_cur + 1;
		setrlimit(RLIMIT_CPU, &rl);
		struct itimerval it;
		memset(&it, 0, sizeof(it));
		it.it_value.tv_sec = (time_t)lim.cpu_s;
		it.it_value.tv_usec = (suseconds_t)((lim.cpu_s - (double)(time_t)lim.cpu_s) * 1e6);
		signal(SIGVTALRM, SIG_DFL);
		setitimer(ITIMER_VIRTUAL, &it, NULL);
		rl.rlim_cur = rl.rlim_max = lim.max_out;
		setrlimit(RLIMIT_FSIZE, &rl);
		rl.rlim_cur = rl.rlim_max = 0;
		setrlimit(RLIMIT_CORE, &rl);
		set_shared(sh);
		install_plan(p, lim);
#if !SIM_ASAN_CORE
		mallopt(M_PERTURB, 0xa5);
#endif
		scrub_stack();
		int rc = body ? body() : call_tool_main(p.argv);
		sh->done = 1;
		exit(rc);	/* flushes stdio like a return from main would */
	}
	int st = 0;
	while (__real_waitpid(pid, &st, 0) != pid)
		;
	if (WIFEXITED(st)) {
		r.exit_code = WEXITSTATUS(st);
		if (r.exit_code == 77)
			r.asan = true;
	} else if (WIFSIGNALED(st)) {
		r.signal = WTERMSIG(st);
		if (r.signal == SIGVTALRM || r.signal == SIGXCPU || r.signal == SIGKILL)
			r.hang = true;
	}
	r.out = slurp_fd(ofd, lim.max_out);
	r.err = slurp_fd(efd, 1 << 20);
	r.nevents = sh->nevents;
	r.loghash = sh->loghash;
	r.flags = sh->flags;
	r.note = sh->note;
	r.trace.assign(sh->trace, sh->trace_len);
	memcpy(r.probes, sh->probes, sizeof(r.probes));
	r.cur_op = sh->cur_op;
	r.nres = sh->nres;
	r.done = sh->done != 0;
	int64_t n = r.nres;
	if (n > (int64_t)(sizeof(sh->res) / sizeof(sh->res[0])))
		n = sizeof(sh->res) / sizeof(sh->res[0]);
	r.res.resize((size_t)n);
	for (int64_t i = 0; i < n; i++)
		r.res[(size_t)i] = {sh->res[i][0], sh->res[i][1], sh->res[i][2], sh->res[i][3]};
	r.blob.assign(sh->blob, sh->blob_len);
	if (getenv("SIMRUN_BLOB"))
		fprintf(stderr, "---- blob ----\n%s---- out ----\n%s---- trace ----\n%s\n", r.blob.c_str(), r.out.c_str(), r.trace.c_str());
	if (r.crashed() && getenv("SIMRUN_DUMP"))
		fprintf(stderr, "---- incarnation %s ----\n%s\n---- trace ----\n%s\n", r.status_str().c_str(), r.err.c_str(), r.trace.c_str());
	if (r.asan && r.err.find("SEGV on unknown address") != std::string::npos)
		r.probes[P_GUARD_SEGV]++;
	return r;
}

} /* namespace sim */
