/* engine.h -- what an engine provides and what the worker loop does with it */
#pragma once
#include "sim.h"
#include <set>
#include <memory>

namespace sim {

struct Verdict {
	bool ok = true;
	std::string cls;      /* violation class: <engine>/<oracle clause> */
	std::string detail;   /* one line for humans */
	std::string predicate;/* named predicates that hold for this plan (known-findings matcher), space separated */
	bool harness = false; /* the harness itself misbehaved: exit 2, never a violation */
};

struct Stats {
	uint64_t plans = 0, incarnations = 0, ops = 0;
	uint64_t probes[64] = {0};
	std::map<std::string, uint64_t> named;       /* engine specific counters (faults fired, reach probes) */
	std::set<uint64_t> distinct_plans, distinct_nontrivial, signatures;
	int64_t sim_seconds = 0;                      /* simulated time covered */
	std::set<int64_t> clock_starts;
	std::vector<std::string> samples;
	uint64_t exec_hash = 0;                       /* over every incarnation of the plans judged with this object */
	/* a memoised reference incarnation: its probes count, but what enters the execution hash is the
	 * memoised value (mix_value), so that the hash does not depend on what a worker has seen before */
	void add_ref(const RunResult &r)
	{
		incarnations++;
		for (int i = 0; i < P_NPROBE_; i++)
			probes[i] += r.probes[i];
	}
	void mix_value(int status, const std::string &out) { exec_hash = hash_str(hash_mix(exec_hash, (uint64_t)(int64_t)status), out); }
	void add_probes(const RunResult &r)
	{
		incarnations++;
		exec_hash = hash_mix(exec_hash, r.hash());
		for (int i = 0; i < P_NPROBE_; i++)
			probes[i] += r.probes[i];
	}
};

struct Config {
	std::string tier = "quick";
	std::string variant = "asan";
	uint64_t seed = 1;
	std::map<std::string, std::string> opt;
	int64_t iopt(const char *k, int64_t d) const
	{
		auto it = opt.find(k);
		return it == opt.end() ? d : strtoll(it->second.c_str(), NULL, 10);
	}
};

struct Engine {
	virtual ~Engine() {}
	virtual const char *name() const = 0;
	virtual const char *property() const = 0;
	/* draw one plan; the only place randomness is consumed */
	virtual Plan generate(Rng &rng, uint64_t idx, const Config &cfg) = 0;
	/* execute PLAN (one or more incarnations) and evaluate the oracles */
	virtual Verdict judge(const Plan &p, Stats &st, bool collect) = 0;
	/* smaller plans to try while shrinking, most aggressive first */
	virtual std::vector<Plan> candidates(const Plan &p);
	/* fixed (non random) plans executed before the seeded ones: regression corpus, exhaustive sweeps */
	virtual size_t fixed_count(const Config &) { return 0; }
	virtual Plan fixed_plan(size_t, const Config &) { return Plan(); }
	/* a hash of everything an execution of PLAN produced, for the determinism gates */
	virtual uint64_t exec_hash(const Plan &p);
};

Engine *make_stream_engine();
Engine *make_zone_engine();
Engine *make_zoneh_engine();
Engine *make_hist_engine();
Engine *make_files_engine();
Engine *make_env_engine();
Engine *make_sort_engine();
Engine *engine_by_name(const std::string &n);
/* a seeded synthetic TZif image (eng_zone.cc) */
std::string synth_zone_image(Rng &r, bool many_types = false);

/* helpers shared by engines */
std::vector<std::string> split_lines_keep(const std::string &s);   /* pieces end with \n except maybe the last */
std::string join(const std::vector<std::string> &v);
std::string first_line(const std::string &s, size_t max = 200);
std::string asan_summary(const std::string &err);
std::string jstr(const std::string &s);
/* ddmin-style candidate lists: remove chunks of a vector */
template <class T> std::vector<std::vector<T>> chunk_removals(const std::vector<T> &v)
{
	std::vector<std::vector<T>> out;
	size_t n = v.size();
	if (n == 0)
		return out;
	for (size_t parts = 2; parts <= n * 2 && out.size() < 64; parts *= 2) {
		size_t sz = (n + parts - 1) / parts;
		if (sz == 0)
			break;
		for (size_t s = 0; s < n; s += sz) {
			std::vector<T> w;
			for (size_t i = 0; i < n; i++)
				if (i < s || i >= s + sz)
					w.push_back(v[i]);
			if (w.size() < n)
				out.push_back(w);
		}
		if (sz == 1)
			break;
	}
	return out;
}

} /* namespace sim */
