/* main.cc -- worker: slice of run indices, judge, shrink, gates, JSON lines
 *
 *   simrun run <engine> --seed S --start A --count N --tier T --variant V --replays DIR [--opt k=v]
 *   simrun replay <plan-file>
 *   simrun gen <engine> --seed S --start I
 *
 * Everything the worker tells the driver goes through write(2) on fd 1, one
 * JSON object per line, so that no stdio buffer is ever inherited by an
 * incarnation. */
#include "engine.h"
#include <stdio.h>
#include <stdlib.h>
#include <string.h>
#include <unistd.h>
#include <fcntl.h>
#include <errno.h>
#include <time.h>
#include <sys/wait.h>
#include <sys/stat.h>
#include <sys/personality.h>
#include <sstream>
#include <fstream>

extern "C" {
ssize_t __real_write(int, const void *, size_t);
ssize_t __real_read(int, void *, size_t);
int __real_open(const char *, int, ...);
int __real_close(int);
pid_t __real_waitpid(pid_t, int *, int);
int __real_execvp(const char *, char *const[]);
int __real_pipe(int[2]);
int __real_dup2(int, int);
void __real__exit(int) __attribute__((noreturn));
}

namespace sim {

std::vector<Plan> Engine::candidates(const Plan &p)
{
	std::vector<Plan> out;
	for (auto &v : chunk_removals(p.ops)) {
		Plan q = p;
		q.ops = v;
		out.push_back(q);
	}
	for (auto &v : chunk_removals(p.sched)) {
		Plan q = p;
		q.sched = v;
		out.push_back(q);
	}
	if (p.has_input) {
		auto lines = split_lines_keep(p.input);
		for (auto &v : chunk_removals(lines)) {
			Plan q = p;
			q.input = join(v);
			out.push_back(q);
		}
	}
	return out;
}
uint64_t Engine::exec_hash(const Plan &p)
{
	Stats st;
	Verdict v = judge(p, st, false);
	return hash_str(hash_mix(st.exec_hash, v.ok), v.cls);
}

std::vector<std::string> split_lines_keep(const std::string &s)
{
	std::vector<std::string> v;
	size_t a = 0;
	while (a < s.size()) {
		size_t e = s.find('\n', a);
		if (e == std::string::npos) {
			v.push_back(s.substr(a));
			break;
		}
		v.push_back(s.substr(a, e - a + 1));
		a = e + 1;
	}
	return v;
}
std::string join(const std::vector<std::string> &v)
{
	std::string r;
	for (auto &x : v)
		r += x;
	return r;
}
std::string first_line(const std::string &s, size_t max)
{
	size_t e = s.find('\n');
	std::string r = s.substr(0, e == std::string::npos ? s.size() : e);
	if (r.size() > max)
		r.resize(max);
	return r;
}
std::string asan_summary(const std::string &err)
{
	size_t i = err.find("ERROR: AddressSanitizer:");
	if (i == std::string::npos)
		return first_line(err);
	std::string l = first_line(err.substr(i + 7), 160);
	/* drop addresses so that the text is stable */
	std::string r;
	for (size_t k = 0; k < l.size(); k++) {
		if (l.compare(k, 2, "0x") == 0) {
			r += "0x..";
			k += 2;
			while (k < l.size() && isxdigit((unsigned char)l[k]))
				k++;
			k--;
		} else
			r += l[k];
	}
	/* frames are not symbolised inside the incarnation (no helper processes there): do it here */
	{
		std::string offs;
		size_t f = err.find("    #0 0x");
		int n = 0;
		while (f != std::string::npos && n < 4) {
			size_t plus = err.find("+0x", f), eol = err.find('\n', f);
			if (plus == std::string::npos || eol == std::string::npos || plus > eol)
				break;
			size_t e = plus + 3;
			while (e < eol && isxdigit((unsigned char)err[e]))
				e++;
			offs += " 0x" + err.substr(plus + 3, e - plus - 3);
			n++;
			f = err.find("    #" + std::to_string(n) + " 0x", eol);
		}
		if (!offs.empty()) {
			char exe[512];
			ssize_t k = readlink("/proc/self/exe", exe, sizeof(exe) - 1);
			if (k > 0) {
				exe[k] = 0;
				std::string cmd = "addr2line -f -s -e " + std::string(exe) + offs + " 2>/dev/null";
				FILE *fp = popen(cmd.c_str(), "r");
				if (fp) {
					char line[512];
					std::string fn, loc, all;
					int i = 0;
					while (fgets(line, sizeof(line), fp)) {
						std::string l = line;
						while (!l.empty() && (l.back() == '\n'))
							l.pop_back();
						if (i % 2 == 0)
							fn = l;
						else {
							if (fn.find("__wrap_") == std::string::npos && fn.find("sim::") == std::string::npos && fn != "??")
								all += (all.empty() ? "" : " < ") + fn + " " + l;
						}
						i++;
					}
					pclose(fp);
					if (!all.empty())
						r += " [in " + all + "]";
				}
			}
		}
	}
	size_t s = err.find("SUMMARY: AddressSanitizer:");
	if (s != std::string::npos) {
		std::string sl = first_line(err.substr(s + 27), 160);
		size_t in = sl.find(" in ");
		if (in != std::string::npos && r.find(" [in ") == std::string::npos)
			r += " [in " + sl.substr(in + 4) + "]";
	}
	return r;
}
std::string jstr(const std::string &s)
{
	std::string r = "\"";
	for (unsigned char c : s) {
		if (c == '"')
			r += "\\\"";
		else if (c == '\\')
			r += "\\\\";
		else if (c == '\n')
			r += "\\n";
		else if (c == '\t')
			r += "\\t";
		else if (c < 32 || c >= 127) {
			char b[8];
			snprintf(b, sizeof(b), "\\u%04x", c);
			r += b;
		} else
			r += (char)c;
	}
	return r + "\"";
}

Engine *engine_by_name(const std::string &n)
{
	if (n == "stream")
		return make_stream_engine();
	if (n == "zone")
		return make_zone_engine();
	if (n == "zoneh")
		return make_zoneh_engine();
	if (n == "hist")
		return make_hist_engine();
	if (n == "files")
		return make_files_engine();
	if (n == "env")
		return make_env_engine();
	if (n == "sort")
		return make_sort_engine();
	return nullptr;
}

} /* namespace sim */

using namespace sim;

static void out_line(const std::string &s)
{
	std::string t = s + "\n";
	size_t off = 0;
	while (off < t.size()) {
		ssize_t k = __real_write(1, t.data() + off, t.size() - off);
		if (k <= 0)
			break;
		off += k;
	}
}

static std::string sanitize(const std::string &s)
{
	std::string r;
	for (char c : s)
		r += isalnum((unsigned char)c) ? c : '-';
	return r;
}

static bool write_file(const std::string &path, const std::string &data)
{
	int fd = __real_open(path.c_str(), O_WRONLY | O_CREAT | O_TRUNC, 0644);
	if (fd < 0)
		return false;
	size_t off = 0;
	while (off < data.size()) {
		ssize_t k = __real_write(fd, data.data() + off, data.size() - off);
		if (k <= 0)
			break;
		off += k;
	}
	__real_close(fd);
	return off == data.size();
}

static bool read_file(const std::string &path, std::string &out)
{
	int fd = __real_open(path.c_str(), O_RDONLY);
	if (fd < 0)
		return false;
	char buf[65536];
	ssize_t n;
	out.clear();
	while ((n = __real_read(fd, buf, sizeof(buf))) > 0)
		out.append(buf, n);
	__real_close(fd);
	return true;
}

/* run `simrun replay FILE` in a fresh process; returns exit code, fills text */
static int fresh_replay(const std::string &file, std::string &text)
{
	int pfd[2];
	if (__real_pipe(pfd) < 0)
		return -1;
	pid_t pid = fork();
	if (pid == 0) {
		__real_close(pfd[0]);
		__real_dup2(pfd[1], 1);
		__real_close(pfd[1]);
		char *const av[] = {(char *)"simrun", (char *)"replay", (char *)file.c_str(), NULL};
		execv("/proc/self/exe", av);
		__real__exit(127);
	}
	__real_close(pfd[1]);
	char buf[4096];
	ssize_t n;
	text.clear();
	while ((n = __real_read(pfd[0], buf, sizeof(buf))) > 0)
		text.append(buf, n);
	__real_close(pfd[0]);
	int st = 0;
	while (__real_waitpid(pid, &st, 0) != pid)
		;
	return WIFEXITED(st) ? WEXITSTATUS(st) : 128 + WTERMSIG(st);
}

struct Args {
	std::string mode, engine, file, replays = "/verif/replays";
	Config cfg;
	uint64_t start = 0, count = 1;
	int64_t shrink_budget = 300;
	double max_wall = 0;
};

static double now_s(void)
{
	struct timespec ts;
	clock_gettime(CLOCK_MONOTONIC, &ts);
	return ts.tv_sec + ts.tv_nsec / 1e9;
}

static std::string json_map(const std::map<std::string, uint64_t> &m)
{
	std::string r = "{";
	bool first = true;
	for (auto &kv : m) {
		if (!first)
			r += ",";
		first = false;
		r += jstr(kv.first) + ":" + std::to_string(kv.second);
	}
	return r + "}";
}
static std::string json_set(const std::set<uint64_t> &s)
{
	std::string r = "[";
	bool first = true;
	char b[32];
	for (auto v : s) {
		if (!first)
			r += ",";
		first = false;
		snprintf(b, sizeof(b), "\"%016llx\"", (unsigned long long)v);
		r += b;
	}
	return r + "]";
}

static int do_replay(const Args &a)
{
	std::string txt, err;
	if (!read_file(a.file, txt)) {
		fprintf(stderr, "simrun: cannot read %s\n", a.file.c_str());
		return 2;
	}
	Plan p;
	if (!Plan::parse(txt, p, err)) {
		fprintf(stderr, "simrun: %s\n", err.c_str());
		return 2;
	}
	std::unique_ptr<Engine> e(engine_by_name(p.engine));
	if (!e) {
		fprintf(stderr, "simrun: unknown engine %s\n", p.engine.c_str());
		return 2;
	}
	Stats st;
	Verdict v = e->judge(p, st, true);
	char b[64];
	snprintf(b, sizeof(b), "%016llx", (unsigned long long)st.exec_hash);
	if (v.harness) {
		out_line("REPLAY harness-error " + v.detail);
		return 2;
	}
	if (v.ok) {
		out_line(std::string("REPLAY ok hash=") + b);
		return 0;
	}
	out_line("REPLAY violation property=" + std::string(e->property()) + " class=" + v.cls + " hash=" + b);
	out_line("  detail: " + v.detail);
	out_line("  predicates: " + v.predicate);
	return 1;
}

static int do_run(const Args &a)
{
	std::unique_ptr<Engine> e(engine_by_name(a.engine));
	if (!e) {
		fprintf(stderr, "simrun: unknown engine %s\n", a.engine.c_str());
		return 2;
	}
	Stats st;
	std::map<std::string, int> reported;	/* cls|predicate -> how many shrunk */
	uint64_t violations = 0, repeats = 0, harness = 0, dropped = 0;
	double t0 = now_s();
	size_t nfixed = e->fixed_count(a.cfg);
	bool capped = false;
	uint64_t done = 0;

	for (uint64_t i = a.start; i < a.start + a.count; i++) {
		if (a.max_wall > 0 && now_s() - t0 > a.max_wall) {
			capped = true;
			break;
		}
		Plan p;
		if (i < nfixed) {
			p = e->fixed_plan((size_t)i, a.cfg);
		} else {
			Rng rng(run_seed(a.cfg.seed, e->name(), i));
			p = e->generate(rng, i, a.cfg);
		}
		p.engine = e->name();
		p.variant = a.cfg.variant;
		st.plans++;
		done++;
		uint64_t hbefore = st.exec_hash;
		st.exec_hash = 0;
		Verdict v = e->judge(p, st, true);
		{
			uint64_t h = hash_str(hash_mix(st.exec_hash, v.ok), v.cls);
			st.exec_hash = hash_mix(hbefore, h);
			if (a.cfg.iopt("hashes", 0)) {
				char hb[32];
				snprintf(hb, sizeof(hb), "%016llx", (unsigned long long)h);
				out_line("{\"type\":\"hash\",\"index\":" + std::to_string(i) + ",\"h\":\"" + hb + "\"}");
			}
		}
		if (v.ok)
			continue;
		if (v.harness) {
			harness++;
			out_line("{\"type\":\"harness\",\"index\":" + std::to_string(i) + ",\"detail\":" + jstr(v.detail) + "}");
			continue;
		}
		/* at most two minimised instances per violation class and worker; the rest are recorded with the
		 * predicates of their unminimised plan and classified by the driver */
		std::string key = v.cls;
		if (reported[key] >= 2) {
			repeats++;
			out_line("{\"type\":\"repeat\",\"index\":" + std::to_string(i) + ",\"cls\":" + jstr(v.cls) +
				 ",\"predicate\":" + jstr(v.predicate) + "}");
			continue;
		}
		reported[key]++;
		/* ---- shrink: accept only the same violation class ---- */
		Plan best = p;
		Verdict bv = v;
		int64_t budget = a.shrink_budget, runs = 0;
		bool progress = true;
		double tshrink = now_s();
		while (progress && budget > 0 && now_s() - tshrink < 60.0) {
			progress = false;
			for (auto &c : e->candidates(best)) {
				if (budget-- <= 0 || now_s() - tshrink > 60.0)
					break;
				Stats tmp;
				Verdict cv = e->judge(c, tmp, false);
				runs++;
				if (!cv.ok && !cv.harness && cv.cls == v.cls) {
					best = c;
					bv = cv;
					progress = true;
					break;
				}
			}
		}
		/* ---- gate (a): same plan twice, identical execution hash ---- */
		uint64_t h1 = e->exec_hash(best), h2 = e->exec_hash(best);
		if (h1 != h2) {
			/* not reported: a violation must replay exactly.  Counted, so that the evidence shows it. */
			dropped++;
			out_line("{\"type\":\"dropped\",\"index\":" + std::to_string(i) +
				 ",\"detail\":\"minimised plan does not execute identically twice (gate a), class " + v.cls + "\"}");
			continue;
		}
		/* ---- gate (b): replay file in a fresh process ---- */
		best.cls = bv.cls;
		char hb[32];
		snprintf(hb, sizeof(hb), "%012llx", (unsigned long long)(best.hash() & 0xffffffffffffULL));
		std::string file = a.replays + "/" + e->property() + "-" + sanitize(bv.cls) + "-" + hb + ".plan";
		std::string body = "# property " + std::string(e->property()) + " class " + bv.cls + "\n# " + bv.detail +
				   "\n# predicates: " + bv.predicate + "\n# found at seed " + std::to_string(a.cfg.seed) +
				   " index " + std::to_string(i) + ", " + std::to_string(runs) + " shrink runs\n" + best.text();
		if (!write_file(file, body)) {
			harness++;
			out_line("{\"type\":\"harness\",\"detail\":\"cannot write replay file " + file + "\"}");
			continue;
		}
		std::string rtext;
		int rc = fresh_replay(file, rtext);
		if (rc != 1 || rtext.find("class=" + bv.cls + " ") == std::string::npos) {
			dropped++;
			unlink(file.c_str());
			out_line("{\"type\":\"dropped\",\"index\":" + std::to_string(i) + ",\"detail\":" +
				 jstr("fresh-process replay did not reproduce class " + bv.cls + " (rc " + std::to_string(rc) +
				      "): " + first_line(rtext)) + ",\"replay\":" + jstr(file) + "}");
			continue;
		}
		violations++;
		out_line("{\"type\":\"violation\",\"property\":" + jstr(e->property()) + ",\"cls\":" + jstr(bv.cls) +
			 ",\"detail\":" + jstr(bv.detail) + ",\"predicate\":" + jstr(bv.predicate) + ",\"replay\":" + jstr(file) +
			 ",\"index\":" + std::to_string(i) + ",\"shrink_runs\":" + std::to_string(runs) +
			 ",\"size_before\":" + std::to_string(p.text().size()) + ",\"size_after\":" + std::to_string(best.text().size()) + "}");
	}
	double wall = now_s() - t0;
	std::map<std::string, uint64_t> pr;
	for (int i = 0; i < P_NPROBE_; i++)
		if (st.probes[i])
			pr[probe_names[i]] = st.probes[i];
	std::string samples = "[";
	for (size_t i = 0; i < st.samples.size() && i < 6; i++)
		samples += (i ? "," : "") + jstr(st.samples[i]);
	samples += "]";
	std::string starts = "[";
	{
		bool f = true;
		for (auto v : st.clock_starts) {
			starts += (f ? "" : ",") + std::to_string(v);
			f = false;
		}
	}
	starts += "]";
	out_line("{\"type\":\"summary\",\"engine\":" + jstr(e->name()) + ",\"variant\":" + jstr(a.cfg.variant) +
		 ",\"start\":" + std::to_string(a.start) + ",\"count\":" + std::to_string(done) +
		 ",\"requested\":" + std::to_string(a.count) + ",\"capped\":" + (capped ? "true" : "false") +
		 ",\"plans\":" + std::to_string(st.plans) + ",\"incarnations\":" + std::to_string(st.incarnations) +
		 ",\"ops\":" + std::to_string(st.ops) + ",\"violations\":" + std::to_string(violations) +
		 ",\"repeats\":" + std::to_string(repeats) + ",\"harness\":" + std::to_string(harness) + ",\"dropped\":" + std::to_string(dropped) +
		 ",\"wall_s\":" + std::to_string(wall) + ",\"sim_seconds\":" + std::to_string(st.sim_seconds) +
		 ",\"clock_starts\":" + starts + ",\"probes\":" + json_map(pr) + ",\"named\":" + json_map(st.named) +
		 ",\"distinct_plans\":" + json_set(st.distinct_plans) + ",\"distinct_nontrivial\":" + json_set(st.distinct_nontrivial) +
		 ",\"signatures\":" + json_set(st.signatures) + ",\"samples\":" + samples + "}");
	return harness ? 2 : violations || repeats ? 1 : 0;
}

int main(int argc, char **argv)
{
	/* identical address-space layout in every run of this binary */
	int pers = personality(0xffffffff);
	if (pers >= 0 && !(pers & ADDR_NO_RANDOMIZE) && !getenv("SIMRUN_REEXEC")) {
		if (personality(pers | ADDR_NO_RANDOMIZE) >= 0) {
			setenv("SIMRUN_REEXEC", "1", 1);
			execv("/proc/self/exe", argv);
		}
	}
	signal(SIGPIPE, SIG_IGN);
	Args a;
	if (argc < 2) {
		fprintf(stderr, "usage: simrun run|replay|gen ...\n");
		return 2;
	}
	a.mode = argv[1];
	int i = 2;
	if (a.mode == "run" || a.mode == "gen") {
		if (argc < 3)
			return 2;
		a.engine = argv[2];
		i = 3;
	} else if (a.mode == "replay") {
		if (argc < 3)
			return 2;
		a.file = argv[2];
		i = 3;
	}
	for (; i < argc; i++) {
		std::string k = argv[i];
		auto val = [&]() -> std::string { return i + 1 < argc ? argv[++i] : ""; };
		if (k == "--seed")
			a.cfg.seed = strtoull(val().c_str(), NULL, 10);
		else if (k == "--start")
			a.start = strtoull(val().c_str(), NULL, 10);
		else if (k == "--count")
			a.count = strtoull(val().c_str(), NULL, 10);
		else if (k == "--tier")
			a.cfg.tier = val();
		else if (k == "--variant")
			a.cfg.variant = val();
		else if (k == "--replays")
			a.replays = val();
		else if (k == "--shrink-budget")
			a.shrink_budget = strtoll(val().c_str(), NULL, 10);
		else if (k == "--max-wall")
			a.max_wall = atof(val().c_str());
		else if (k == "--opt") {
			std::string kv = val();
			size_t e = kv.find('=');
			if (e != std::string::npos)
				a.cfg.opt[kv.substr(0, e)] = kv.substr(e + 1);
		}
	}
	if (a.mode == "replay")
		return do_replay(a);
	if (a.mode == "gen") {
		std::unique_ptr<Engine> e(engine_by_name(a.engine));
		if (!e)
			return 2;
		Plan p;
		if (a.start < e->fixed_count(a.cfg))
			p = e->fixed_plan((size_t)a.start, a.cfg);
		else {
			Rng rng(run_seed(a.cfg.seed, e->name(), a.start));
			p = e->generate(rng, a.start, a.cfg);
		}
		p.engine = e->name();
		p.variant = a.cfg.variant;
		out_line(p.text());
		return 0;
	}
	if (a.mode == "run")
		return do_run(a);
	return 2;
}
