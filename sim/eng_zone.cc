/* eng_zone.cc -- C12 (conversion follows the zone file) and the handle part of C13 (no hidden state)
 *
 * Zone files come through the simulated file layer; lookups go through a stateful
 * handle (range cache).  An op sequence runs inside one incarnation on
 *   main  : one handle that sees the whole history,
 *   fresh : a newly opened handle per op (the empty history),
 *   copy  : a zif_copy() of the main handle taken before the first op, seeing the same history.
 * C12 judges main and fresh against an independent TZif reference model,
 * C13 judges main and copy against fresh. */
#include "engine.h"
#include "models.h"
#include <string.h>
#include <dirent.h>
#include <sys/stat.h>
#include <algorithm>

extern "C" {
#include "tzraw.h"
}

namespace sim {
void blob_append(const std::string &s);
namespace {

using model::TzModel;

/* ---------------- TZif writer ---------------- */
void put32(std::string &s, uint32_t v)
{
	char b[4] = {(char)(v >> 24), (char)(v >> 16), (char)(v >> 8), (char)v};
	s.append(b, 4);
}
void put64(std::string &s, uint64_t v)
{
	put32(s, (uint32_t)(v >> 32));
	put32(s, (uint32_t)v);
}
struct ZoneSpec {
	int version;				/* 0, '2', '3' */
	std::vector<int64_t> tr;
	std::vector<int> ty;
	std::vector<int32_t> off;
	int v1mode;				/* 0 empty, 1 equal (truncated to 32 bit), 2 different */
	unsigned leapcnt, charcnt, isstd, isgmt;
};
std::string block(const ZoneSpec &z, bool wide, char ver, const std::vector<int64_t> &tr, const std::vector<int> &ty,
		  const std::vector<int32_t> &off)
{
	std::string s = "TZif";
	s += ver;
	s.append(15, '\0');
	unsigned nty = (unsigned)off.size();
	unsigned isgmt = z.isgmt ? nty : 0, isstd = z.isstd ? nty : 0;
	put32(s, isgmt);
	put32(s, isstd);
	put32(s, z.leapcnt);
	put32(s, (uint32_t)tr.size());
	put32(s, nty);
	put32(s, z.charcnt);
	for (auto t : tr) {
		if (wide)
			put64(s, (uint64_t)t);
		else
			put32(s, (uint32_t)(int32_t)t);
	}
	for (auto t : ty)
		s += (char)t;
	for (unsigned i = 0; i < nty; i++) {
		put32(s, (uint32_t)off[i]);
		s += (char)(i & 1);
		s += (char)(z.charcnt ? (i * 4) % z.charcnt : 0);
	}
	for (unsigned i = 0; i < z.charcnt; i++)
		s += (i % 4 == 3) ? '\0' : (char)('A' + i % 26);
	for (unsigned i = 0; i < z.leapcnt; i++) {
		if (wide)
			put64(s, 78796800ULL + i * 31536000ULL);
		else
			put32(s, 78796800U + i * 31536000U);
		put32(s, i + 1);
	}
	s.append(isstd, '\0');
	s.append(isgmt, '\1');
	return s;
}
std::string zone_bytes(const ZoneSpec &z)
{
	if (z.version == 0)
		return block(z, false, '\0', z.tr, z.ty, z.off);
	std::string s;
	char ver = (char)z.version;
	if (z.v1mode == 0) {
		ZoneSpec e = z;
		e.leapcnt = e.charcnt = 0;
		e.isstd = e.isgmt = 0;
		s = block(e, false, ver, {}, {}, {0});
		/* an empty v1 block still needs one type per the format; counts are what matter */
	} else if (z.v1mode == 1) {
		std::vector<int64_t> tr;
		std::vector<int> ty;
		for (size_t i = 0; i < z.tr.size(); i++)
			if (z.tr[i] >= INT32_MIN && z.tr[i] <= INT32_MAX) {
				tr.push_back(z.tr[i]);
				ty.push_back(z.ty[i]);
			}
		s = block(z, false, ver, tr, ty, z.off);
	} else {
		/* deliberately different 32-bit data: a reader must use the 64-bit block */
		std::vector<int64_t> tr;
		std::vector<int> ty;
		for (size_t i = 0; i < z.tr.size() && i < 5; i++) {
			tr.push_back((int64_t)(i * 1000003));
			ty.push_back(0);
		}
		std::vector<int32_t> off(z.off.size(), 12345);
		s = block(z, false, ver, tr, ty, off);
	}
	s += block(z, true, ver, z.tr, z.ty, z.off);
	s += "\n";
	if (z.version == '3')
		s += "<+0330>-3:30<+0430>,J79/24,J263/24";
	else
		s += "CET-1CEST,M3.5.0,M10.5.0/3";
	s += "\n";
	return s;
}

ZoneSpec gen_zone(Rng &r)
{
	ZoneSpec z;
	static const int vers[] = {0, '2', '2', '3'};
	z.version = vers[r.below(4)];
	z.v1mode = (int)r.below(3);
	z.leapcnt = r.chance(1, 4) ? (unsigned)r.below(5) : 0;
	z.charcnt = r.chance(3, 4) ? (unsigned)r.range(4, 24) : 0;
	z.isstd = r.chance(1, 2);
	z.isgmt = r.chance(1, 2);
	static const size_t ntrs[] = {0, 1, 2, 3, 7, 30, 120, 254, 255, 256, 257, 300, 600, 1000, 3000};
	size_t ntr = ntrs[r.below(r.chance(1, 8) ? 15 : 12)];
	if (r.chance(1, 4))
		ntr = (size_t)r.below(40);
	unsigned nty = (unsigned)r.range(1, 8);
	if (r.chance(1, 10))
		nty = (unsigned)r.range(9, 40);
	else if (r.chance(1, 20))
		nty = (unsigned)r.range(120, 256);	/* the type index is one byte: all of its values */
	for (unsigned i = 0; i < nty; i++) {
		int32_t o;
		unsigned k = (unsigned)r.below(10);
		if (k < 6)
			o = (int32_t)r.range(-48, 56) * 900;	/* quarter hours */
		else if (k < 8)
			o = (int32_t)r.range(-12, 14) * 3600;
		else
			o = (int32_t)r.range(-15 * 3600, 15 * 3600);	/* LMT-like */
		z.off.push_back(o);
	}
	/* transitions: strictly ascending, gaps from hours to decades; dense tables keep a 26 h minimum most of the time */
	bool wide = z.version != 0;
	bool dense = r.chance(1, 8);
	int64_t t;
	unsigned sc = (unsigned)r.below(10);
	if (sc < 5)
		t = r.range(-2000000000LL, 100000000LL);
	else if (sc < 8)
		t = r.range(0, 1500000000LL);
	else
		t = wide ? r.range(-60000000000LL, -2200000000LL) : r.range(-2147483600LL, -2000000000LL);
	int prevty = -1;
	for (size_t i = 0; i < ntr; i++) {
		int64_t gap;
		unsigned g = (unsigned)r.below(10);
		if (dense && g < 4)
			gap = r.range(1, 7200);
		else if (g < 5)
			gap = r.range(94000, 20000000);		/* > 26 h .. ~8 months */
		else if (g < 8)
			gap = r.range(15000000, 17000000);	/* about half a year */
		else if (g < 9)
			gap = r.range(31536000, 10LL * 31536000);
		else
			gap = r.range(94000, 100000);
		if (ntr > 500 && gap > 4000000)
			gap = 94000 + gap % 3000000;
		t += gap;
		if (!wide && t > 2147480000LL)
			break;
		int ty = (int)r.below(nty);
		if (nty > 1 && ty == prevty && !r.chance(1, 12))
			ty = (ty + 1) % (int)nty;	/* mostly real transitions, sometimes a no-op to exercise the merge */
		z.tr.push_back(t);
		z.ty.push_back(ty);
		prevty = ty;
	}
	return z;
}

/* ---------------- system zone database ---------------- */
std::vector<std::string> g_sysfiles;
void scan_dir(const std::string &d, int depth)
{
	DIR *dp = opendir(d.c_str());
	if (!dp)
		return;
	std::vector<std::string> names;
	while (struct dirent *e = readdir(dp))
		if (e->d_name[0] != '.')
			names.push_back(e->d_name);
	closedir(dp);
	std::sort(names.begin(), names.end());
	for (auto &n : names) {
		std::string p = d + "/" + n;
		struct stat st;
		if (::stat(p.c_str(), &st) < 0)
			continue;
		if (S_ISDIR(st.st_mode)) {
			if (depth < 3 && n != "posix" && n != "right")
				scan_dir(p, depth + 1);
		} else if (S_ISREG(st.st_mode) && st.st_size > 44 && st.st_size < 200000) {
			std::string data;
			if (real_file_bytes(p, data) && data.compare(0, 4, "TZif") == 0)
				g_sysfiles.push_back(p);
		}
	}
}
const std::vector<std::string> &sysfiles()
{
	static bool done;
	if (!done) {
		done = true;
		scan_dir("/usr/share/zoneinfo", 0);
	}
	return g_sysfiles;
}

/* ---------------- instants ---------------- */
const int64_t FAR = 1LL << 40;

int64_t pick_instant(Rng &r, const TzModel &m)
{
	size_t n = m.ent.size();
	unsigned k = (unsigned)r.below(100);
	if (n == 0)
		return k < 50 ? r.range(-3000000000LL, 5000000000LL) : k < 75 ? r.range(-FAR, FAR) : r.range(-5, 5);
	int64_t t0 = m.ent.front().t, tl = m.ent.back().t;
	if (k < 40) {
		size_t i = r.below(n);
		return m.ent[i].t + r.range(-1, 1);
	}
	if (k < 48)
		return t0 + r.range(-1, 1);
	if (k < 56)
		return tl + r.range(-1, 1);
	if (k < 62)
		return tl + r.range(1, FAR);
	if (k < 70)
		return t0 - r.range(1, 1LL << (r.below(40) + 1));
	if (k < 80) {
		size_t i = r.below(n);
		return m.ent[i].t + r.range(-90000, 90000);
	}
	if (k < 84 && n > 256)
		return m.ent[(size_t)r.range(255, (int64_t)n - 1)].t + r.range(-1, 1);
	if (tl > t0)
		return r.range(t0 - (tl - t0) / 10 - 1, tl + (tl - t0) / 10 + 1);
	return t0 + r.range(-100000, 100000);
}

struct ZoneEngine : Engine {
	bool c13;	/* judge history independence instead of agreement with the file */
	explicit ZoneEngine(bool h) : c13(h) {}
	const char *name() const override { return c13 ? "zoneh" : "zone"; }
	const char *property() const override { return c13 ? "C13" : "C12"; }

	void add_ops(Rng &r, const TzModel &m, Plan &p, size_t nops)
	{
		unsigned pattern = (unsigned)r.below(6);
		int64_t cursor = m.ent.empty() ? 0 : m.ent[r.below(m.ent.size())].t;
		for (size_t i = 0; i < nops; i++) {
			Op o;
			unsigned k = (unsigned)r.below(100);
			o.kind = k < 50 ? "L" : k < 75 ? "U" : k < 90 ? "R" : "T";
			int64_t t;
			switch (pattern) {
			case 0:	/* alternate far left / far right */
				t = (i & 1) ? pick_instant(r, m) : (m.ent.empty() ? -FAR : (i & 2 ? m.ent.front().t - r.range(1, 1 << 20) : m.ent.back().t + r.range(1, 1 << 20)));
				break;
			case 1:	/* ascending walk */
				cursor += r.range(1, 20000000);
				t = cursor;
				break;
			case 2:	/* descending walk */
				cursor -= r.range(1, 20000000);
				t = cursor;
				break;
			default:
				t = pick_instant(r, m);
				break;
			}
			if (o.kind == "U") {
				/* a local time that exists (mostly): instant plus its offset, or around a switch */
				bool def;
				int64_t off = m.off_at(t, &def);
				t += off;
				if (r.chance(1, 5))
					t += r.range(-7200, 7200);
			}
			o.a = {t};
			p.ops.push_back(o);
		}
	}

	Plan generate(Rng &r, uint64_t idx, const Config &cfg) override
	{
		(void)idx;
		Plan p;
		std::string img;
		std::string name;
		if (r.chance(1, 4) && !sysfiles().empty()) {
			name = r.pick(sysfiles());
			real_file_bytes(name, img);
			p.par["origin"] = name;
		} else {
			img = zone_bytes(gen_zone(r));
			p.par["origin"] = "synthetic";
		}
		SimFile f;
		f.path = "/sim/zi/Z";
		f.data = img;
		p.files.push_back(f);
		TzModel m = model::tz_parse(img);
		size_t nops = (size_t)(r.chance(1, 5) ? r.range(1, 6) : r.range(10, cfg.tier == "thorough" ? 300 : 200));
		add_ops(r, m, p, nops);
		if (r.chance(1, 5) && cfg.iopt("tool", 1))
			p.par["tool"] = std::to_string(1 + r.below(5));
		return p;
	}

	/* every system zone, every transition +-1 s, seeded order */
	size_t fixed_count(const Config &) override { return sysfiles().size(); }
	Plan fixed_plan(size_t i, const Config &cfg) override
	{
		Plan p;
		Rng r(run_seed(cfg.seed, "zone-fixed", i));
		std::string img;
		real_file_bytes(sysfiles()[i], img);
		p.par["origin"] = sysfiles()[i];
		SimFile f;
		f.path = "/sim/zi/Z";
		f.data = img;
		p.files.push_back(f);
		TzModel m = model::tz_parse(img);
		std::vector<Op> ops;
		for (auto &e : m.ent)
			for (int d = -1; d <= 1; d++) {
				Op o;
				o.kind = "L";
				o.a = {e.t + d};
				ops.push_back(o);
				Op u;
				u.kind = "U";
				u.a = {e.t + d + m.off_at(e.t + d)};
				ops.push_back(u);
				if (d == 0) {
					Op q;
					q.kind = "R";
					q.a = {e.t};
					ops.push_back(q);
				}
			}
		for (int64_t t : {(int64_t)0, FAR, -FAR, (int64_t)4102444800LL, (int64_t)-2208988800LL}) {
			Op o;
			o.kind = "L";
			o.a = {t};
			ops.push_back(o);
		}
		/* seeded order */
		for (size_t k = ops.size(); k > 1; k--)
			std::swap(ops[k - 1], ops[r.below(k)]);
		p.ops = ops;
		return p;
	}

	/* ---- the incarnation body ---- */
	static int body(const Plan &p)
	{
		Shared *sh = shared();
		const char *path = "/sim/zi/Z";
		zif_t z = zif_open(path);
		if (!z) {
			blob_append("open-failed");
			return 3;
		}
		zif_t c = zif_copy(z);
		blob_append("ntr=" + std::to_string(zif_ntrans(z)));
		int64_t row = 0;
		const int64_t cap = (int64_t)(sizeof(sh->res) / sizeof(sh->res[0]));
		for (size_t i = 0; i < p.ops.size() && row + 3 <= cap; i++) {
			const Op &o = p.ops[i];
			int64_t t = o.arg(0);
			sh->cur_op = (int64_t)i;
			zif_t f = zif_open(path);
			zif_t hs[3] = {z, f, c};
			for (int h = 0; h < 3; h++) {
				int64_t *out = sh->res[row + h];
				out[0] = out[1] = out[2] = out[3] = 0;
				if (!hs[h]) {
					out[3] = -999;
					continue;
				}
				switch (o.kind[0]) {
				case 'L':
					out[0] = zif_local_time(hs[h], t);
					break;
				case 'U':
					out[0] = zif_utc_time(hs[h], t);
					break;
				case 'T':
					out[0] = zif_find_trans(hs[h], t);
					break;
				case 'R': {
					struct zrng_s g = zif_find_zrng(hs[h], t);
					out[0] = g.prev;
					out[1] = g.next;
					out[2] = g.offs;
					out[3] = g.trno;
					break;
				}
				}
			}
			if (f)
				zif_close(f);
			row += 3;
			sh->nres = row;
		}
		sh->cur_op = -1;
		if (c)
			zif_close(c);
		zif_close(z);
		return 0;
	}

	static bool sparse(const TzModel &m)
	{
		/* 26 h is the widest span of offsets any real zone has (-12 h .. +14 h); synthetic files draw offsets
		 * from +-15 h, so the distance demanded between transitions follows the span of offsets of the file:
		 * a local time must not be within reach of two transitions at once */
		int64_t lo = 0, hi = 0;
		for (auto &e : m.ent) {
			lo = std::min<int64_t>(lo, e.off);
			hi = std::max<int64_t>(hi, e.off);
		}
		for (auto o : m.type_off) {
			lo = std::min<int64_t>(lo, o);
			hi = std::max<int64_t>(hi, o);
		}
		int64_t need = std::max<int64_t>(26 * 3600, hi - lo + 3600);
		for (size_t i = 1; i < m.ent.size(); i++)
			if (m.ent[i].t - m.ent[i - 1].t < need)
				return false;
		return true;
	}
	static std::vector<int64_t> inverse_set(const TzModel &m, int64_t l)
	{
		std::vector<int64_t> s;
		if (m.ent.empty()) {
			s.push_back(l - (m.type_off.empty() ? 0 : m.type_off[0]));
			return s;
		}
		long lo = m.idx_at(l - 2 * 86400), hi = m.idx_at(l + 2 * 86400);
		if (lo < 0)
			lo = 0;
		for (long i = lo; i <= hi; i++) {
			int64_t u = l - m.ent[(size_t)i].off;
			if (m.idx_at(u) == i)
				s.push_back(u);
		}
		return s;
	}

	std::string opstr(const Op &o) { return o.kind + "(" + std::to_string(o.arg(0)) + ")"; }

	Verdict judge(const Plan &p, Stats &st, bool collect) override
	{
		Verdict v;
		const std::string &img = p.files.empty() ? std::string() : p.files[0].data;
		TzModel m = model::tz_parse(img);
		if (!m.ok) {
			/* not a well-formed zone file: nothing to say here (C19's business) */
			return v;
		}
		Limits lim;
		lim.cpu_s = 2.0 + p.ops.size() / 2000.0;
		RunResult r = run_plan(p, lim, [&]() { return body(p); });
		st.add_probes(r);
		st.ops += (uint64_t)r.nres;
		bool sp = sparse(m);
		std::string pred = "ntr_" + std::string(m.ent.size() == 0 ? "0" : m.ent.size() > 255 ? "gt255" : "le255");
		pred += p.par.count("origin") && p.par.at("origin") != "synthetic" ? " system_zone" : " synthetic_zone";
		if (collect) {
			st.distinct_plans.insert(p.hash());
			if (p.ops.size() >= 2)
				st.distinct_nontrivial.insert(p.hash());
			st.named[m.ent.size() > 255 ? "reach_more_than_255_transitions" : m.ent.empty() ? "reach_no_transitions" : "zones_1_to_255_transitions"]++;
			st.named[std::string("version_") + (m.version ? std::string(1, (char)m.version) : "1")]++;
			if (st.samples.size() < 3) {
				std::string s = (p.par.count("origin") ? p.par.at("origin") : "?") + " ntr=" + std::to_string(m.ent.size()) + " ops:";
				for (size_t i = 0; i < p.ops.size() && i < 6; i++)
					s += " " + opstr(p.ops[i]);
				st.samples.push_back(s);
			}
		}
		if (r.blob.compare(0, 11, "open-failed") == 0) {
			v.ok = false;
			v.cls = "zone/open";
			v.predicate = pred;
			v.detail = "zif_open fails on a well-formed TZif file (version " + std::to_string(m.version) + ", " + std::to_string(m.raw_t.size()) + " transitions)";
			return c13 ? Verdict() : v;
		}
		/* ---- liveness / memory ---- */
		if (r.crashed() || !r.done) {
			v.ok = false;
			int64_t k = r.cur_op;
			std::string at = k >= 0 && (size_t)k < p.ops.size() ? "op #" + std::to_string(k) + " " + opstr(p.ops[(size_t)k]) : "outside ops";
			if (r.hang) {
				v.cls = c13 ? "zoneh/hang" : "zone/hang";
				v.detail = at + " does not return within the CPU budget";
				if (k >= 0 && (size_t)k < p.ops.size() && !m.ent.empty()) {
					int64_t t = p.ops[(size_t)k].arg(0);
					if (t == m.ent.back().t || (p.ops[(size_t)k].kind == "U"))
						pred += " at_or_via_last_transition";
				}
			} else {
				v.cls = c13 ? "zoneh/memory" : "zone/memory";
				v.detail = at + ": " + r.status_str() + " " + asan_summary(r.err);
			}
			v.predicate = pred;
			return v;
		}
		/* ---- per op ---- */
		uint64_t sig = hash_mix(11, m.ent.size() > 255 ? 3 : m.ent.size() > 0 ? 2 : 1);
		int64_t t0 = m.ent.empty() ? INT64_MIN : m.ent.front().t;
		long previdx = -2;
		for (size_t i = 0; i < p.ops.size() && (int64_t)(3 * i + 2) < r.nres; i++) {
			const Op &o = p.ops[i];
			int64_t t = o.arg(0);
			auto &mn = r.res[3 * i], &fr = r.res[3 * i + 1], &cp = r.res[3 * i + 2];
			long idx = m.idx_at(t);
			/* query class for the signature and the probes */
			int qc;
			if (m.ent.empty())
				qc = 0;
			else if (idx < 0)
				qc = 1;
			else if (t == m.ent[(size_t)idx].t)
				qc = (size_t)idx + 1 == m.ent.size() ? 3 : 2;
			else if ((size_t)idx + 1 == m.ent.size())
				qc = 4;
			else
				qc = idx == previdx ? 5 : idx < previdx ? 6 : 7;
			previdx = idx;
			if (i < 12)
				sig = hash_mix(sig, (uint64_t)qc * 5 + (uint64_t)(o.kind[0] % 5));
			if (collect) {
				static const char *qn[] = {"q_no_transitions", "q_before_first", "q_on_transition", "q_on_last_transition",
							   "q_after_last", "q_same_range", "q_left_of_previous", "q_right_of_previous"};
				st.named[qn[qc]]++;
				if (idx > 255)
					st.named["q_index_above_255"]++;
			}
			std::string where = "op #" + std::to_string(i) + " " + opstr(o) + " (" + (p.par.count("origin") ? p.par.at("origin") : "") + ")";
			if (c13) {
				/* same answer whatever was asked before */
				bool same = mn == fr && cp == fr;
				if (!same) {
					v.ok = false;
					v.cls = "zoneh/history-dependence";
					v.predicate = pred + (idx < 0 ? " q_before_first" : "") + (t < 0 ? " q_negative" : "") + (idx > 255 ? " q_index_above_255" : "");
					v.detail = where + ": handle with history answers " + std::to_string(mn[0]) + ", zif_copy of it " + std::to_string(cp[0]) +
						   ", freshly opened handle " + std::to_string(fr[0]);
					break;
				}
				continue;
			}
			/* ---- C12: main and fresh against the table ---- */
			const char *who[2] = {"handle with history", "freshly opened handle"};
			const std::array<int64_t, 4> *hs[2] = {&mn, &fr};
			for (int h = 0; h < 2 && v.ok; h++) {
				const auto &x = *hs[h];
				std::string hp = pred + (h ? " fresh_handle" : " history_handle") + (t < 0 ? " q_negative" : "") + (idx > 255 ? " q_index_above_255" : "");
				if (o.kind == "L") {
					if (idx < 0 && !m.ent.empty())
						continue;	/* before the first listed transition: not judged */
					int64_t want = t + m.off_at(t);
					if (x[0] != want) {
						v.ok = false;
						v.cls = "zone/offset";
						v.predicate = hp;
						v.detail = where + ": " + who[h] + " converts UTC " + std::to_string(t) + " (" + model::fmt_iso(t) + ") with offset " +
							   std::to_string(x[0] - t) + ", the file says " + std::to_string(want - t);
					}
				} else if (o.kind == "U") {
					if (!sp)
						continue;	/* denser than any zone database: termination and memory only */
					if (!m.ent.empty() && t - 16 * 3600 < t0)
						continue;
					auto S = inverse_set(m, t);
					if (S.empty())
						continue;	/* local time that does not exist */
					if (std::find(S.begin(), S.end(), x[0]) == S.end()) {
						v.ok = false;
						v.cls = "zone/inverse";
						v.predicate = hp + (S.size() > 1 ? " ambiguous_local" : " unambiguous_local");
						v.detail = where + ": " + who[h] + " maps local " + std::to_string(t) + " to UTC " + std::to_string(x[0]) +
							   ", valid instant(s): " + std::to_string(S[0]) + (S.size() > 1 ? " or " + std::to_string(S[1]) : "");
					}
				} else if (o.kind == "T") {
					if (idx < 0 && !m.ent.empty())
						continue;
					long want = m.ent.empty() ? -1 : idx;
					if (x[0] != want) {
						v.ok = false;
						v.cls = "zone/range";
						v.predicate = hp;
						v.detail = where + ": " + who[h] + " zif_find_trans gives " + std::to_string(x[0]) + ", table index is " + std::to_string(want);
					}
				} else if (o.kind == "R") {
					if (idx < 0 && !m.ent.empty())
						continue;
					int64_t wp = m.ent.empty() ? STAMP_MIN : m.ent[(size_t)idx].t;
					int64_t wn = m.ent.empty() || (size_t)idx + 1 == m.ent.size() ? STAMP_MAX : m.ent[(size_t)idx + 1].t;
					int64_t wo = m.off_at(t);
					if (x[0] != wp || x[1] != wn || x[2] != wo) {
						v.ok = false;
						v.cls = "zone/range";
						v.predicate = hp;
						v.detail = where + ": " + who[h] + " zif_find_zrng gives [" + std::to_string(x[0]) + "," + std::to_string(x[1]) + ") offs " +
							   std::to_string(x[2]) + ", table says [" + std::to_string(wp) + "," + std::to_string(wn) + ") offs " + std::to_string(wo);
					}
				}
			}
			if (!v.ok)
				break;
		}
		if (collect)
			st.signatures.insert(sig);
		if (!v.ok || c13)
			return v;
		/* ---- tool level spot checks on the same file ---- */
		if (p.par.count("tool") && !p.ops.empty())
			return judge_tool(p, m, st, collect);
		return v;
	}

	/* dconv --zone / --from-zone and dzone --next --prev against the model; quarter-hour offsets only (%Z resolution) */
	Verdict judge_tool(const Plan &p, const TzModel &m, Stats &st, bool collect)
	{
		Verdict v;
		for (auto o : m.type_off)
			if (o % 900)
				return v;
		int mode = (int)p.ipar("tool", 1);
		/* pick the instants of the first ops that lie in the judged, printable region */
		std::vector<int64_t> ts;
		for (auto &o : p.ops) {
			int64_t t = o.arg(0);
			if (o.kind != "L" && o.kind != "R")
				continue;
			if (t < -11644000000LL || t > 60000000000LL)
				continue;	/* years 1601..3800 or so */
			if (!m.ent.empty() && t < m.ent.front().t)
				continue;
			ts.push_back(t);
			if (ts.size() >= 4)
				break;
		}
		if (ts.empty())
			return v;
		/* every third tool-level plan asks within hours of an inserted leap second: the zone offset is wall-clock
		 * arithmetic, whatever lies between the UTC reading and the local one */
		if ((p.hash() >> 19) % 3 == 0) {
			static const int64_t leaps[] = {78796800, 94694400, 126230400, 157766400, 189302400, 220924800, 252460800, 283996800, 315532800,
							362793600, 394329600, 425865600, 489024000, 567993600, 631152000, 662688000, 709948800, 741484800,
							773020800, 820454400, 867715200, 915148800, 1136073600, 1230768000, 1341100800, 1435708800, 1483228800};
			int64_t c = leaps[(p.hash() >> 22) % (sizeof(leaps) / sizeof(*leaps))];
			int64_t cand = c + (int64_t)((p.hash() >> 27) % 100800) - 50400;	/* +-14 h */
			if (m.ent.empty() || cand >= m.ent.front().t)
				ts[0] = cand;
		}
		Plan q;
		q.engine = p.engine;
		q.variant = p.variant;
		q.files = p.files;
		/* the same image under a longer path: zone handles are cached under the name they were asked for */
		std::string zpath = "/sim/zi/Z";
		{
			static const size_t lens[] = {0, 0, 0, 30, 47, 48, 49, 56, 64, 100, 128, 250, 300, 1000};
			size_t extra = lens[(p.hash() >> 7) % (sizeof(lens) / sizeof(*lens))];
			if (extra) {
				zpath = "/sim/zi/";
				while (zpath.size() < 8 + extra)
					zpath += zpath.size() % 17 == 16 ? '/' : (char)('a' + zpath.size() % 23);
				zpath += "/Z";
				for (auto &f : q.files)
					if (f.path == "/sim/zi/Z")
						f.path = zpath;
			}
		}
		std::string expect;
		auto zstr = [](int32_t off) {
			char b[16];
			int a = off < 0 ? -off : off;
			snprintf(b, sizeof(b), "%c%02d:%02d", off < 0 ? '-' : '+', a / 3600, a % 3600 / 60);
			return std::string(b);
		};
		if (mode == 1) {
			q.argv = {"dconv", "--zone", "/sim/zi/Z", "-f", "%FT%T%Z"};
			for (auto t : ts) {
				q.argv.push_back(model::fmt_iso(t));
				int32_t off = m.off_at(t);
				expect += model::fmt_iso(t + off) + zstr(off) + "\n";
			}
		} else if (mode == 2) {
			if (!sparse(m))
				return v;
			q.argv = {"dconv", "--from-zone", "/sim/zi/Z", "-f", "%FT%T"};
			bool timeonly = ((p.hash() >> 17) & 3) == 0;	/* the date comes from --base, given with a time of day of its own */
			if (timeonly && !m.ent.empty()) {
				/* on the day of a transition, some hours behind it: the neighbouring day has the other offset */
				size_t k = (size_t)((p.hash() >> 33) % m.ent.size());
				int64_t cand = m.ent[k].t + 3600 * (4 + (int64_t)((p.hash() >> 40) % 6));
				if (cand >= -11644000000LL && cand <= 60000000000LL)
					ts.insert(ts.begin(), cand);
			}
			for (auto t : ts) {
				int64_t l = t + m.off_at(t);
				auto S = inverse_set(m, l);
				if (S.size() != 1 || (!m.ent.empty() && l - 16 * 3600 < m.ent.front().t))
					continue;
				if (timeonly) {
					std::string iso = model::fmt_iso(l);
					static const char *tod[] = {"T00:30:00", "T23:59:59", "T12:00:00", "T00:00:01"};
					q.argv.insert(q.argv.begin() + 1, {"-b", iso.substr(0, 10) + tod[(p.hash() >> 29) & 3]});
					q.argv.push_back(iso.substr(11));
					/* a bare time stays a bare time: the base lends its date to the conversion only */
					for (auto &a : q.argv)
						if (a == "%FT%T")
							a = "%T";
					expect += model::fmt_iso(S[0]).substr(11) + "\n";
					break;
				}
				q.argv.push_back(model::fmt_iso(l));
				expect += model::fmt_iso(S[0]) + "\n";
			}
			if (q.argv.size() == 5)
				return v;
			if (timeonly && collect)
				st.named["tool_time_only_with_base"]++;
		} else if (mode == 4) {
			/* from the zone under test into a zone with a constant positive offset: time and printed offset */
			if (!sparse(m))
				return v;
			std::string tokyo;
			if (!real_file_bytes("/usr/share/zoneinfo/Asia/Tokyo", tokyo))
				return v;
			SimFile tf;
			tf.path = "/usr/share/zoneinfo/Asia/Tokyo";
			tf.data = tokyo;
			q.files.push_back(tf);
			q.argv = {"dconv", "--from-zone", "/sim/zi/Z", "--zone", "Asia/Tokyo", "-f", "%FT%T%Z"};
			for (auto t : ts) {
				if (t < -500000000LL)
					continue;	/* Tokyo has been +09:00 without interruption since 1951 */
				int64_t l = t + m.off_at(t);
				auto S = inverse_set(m, l);
				if (S.size() != 1 || (!m.ent.empty() && l - 16 * 3600 < m.ent.front().t))
					continue;
				q.argv.push_back(model::fmt_iso(l));
				expect += model::fmt_iso(S[0] + 9 * 3600) + "+09:00\n";
			}
			if (q.argv.size() == 7)
				return v;
		} else if (mode == 5) {
			/* the same image under 24 to 40 names in one dzone run, in a process that may hold 16 descriptors:
			 * a zone that has been loaded needs none */
			size_t ncopies = 24 + (size_t)(p.hash() % 17);
			std::string img;
			for (auto &f : q.files)
				if (f.path == zpath)
					img = f.data;
			q.argv = {"dzone"};
			int64_t t = ts[0];
			int32_t off = m.off_at(t);
			for (size_t i = 0; i < ncopies; i++) {
				char nm[32];
				snprintf(nm, sizeof(nm), "/sim/zi/c%03zu", i);
				SimFile f;
				f.path = nm;
				f.data = img;
				q.files.push_back(f);
				q.argv.push_back(nm);
				expect += model::fmt_iso(t + off) + zstr(off) + "\t" + nm + "\n";
			}
			q.argv.push_back(model::fmt_iso(t));
			q.par["nofile"] = "16";
		} else {
			int64_t t = ts[0];
			/* every other plan asks inside the first range of the table: the previous transition is entry 0 */
			if (!m.ent.empty() && (p.hash() & 1)) {
				int64_t t0 = m.ent[0].t, t1 = m.ent.size() > 1 ? m.ent[1].t : t0 + 2 * 86400 * 366;
				int64_t cand = (p.hash() & 2) ? t0 : (p.hash() & 4) ? t1 - 1 : t0 + (t1 - t0) / 2;
				if (cand >= -11644000000LL && cand <= 60000000000LL)
					t = cand;
			}
			/* one to three instants in one run: the first, one more in the same range, one from the ops */
			std::vector<int64_t> qs = {t};
			if (p.hash() & 8) {
				long i0 = m.idx_at(t);
				int64_t hi = m.ent.empty() || (size_t)(i0 + 1) >= m.ent.size() ? t + 86400 * 30 : m.ent[(size_t)i0 + 1].t - 1;
				int64_t t2 = t + (hi - t) / 2 + 1;
				if (t2 <= hi && t2 <= 60000000000LL && m.idx_at(t2) == i0)
					qs.push_back(t2);
				if ((p.hash() & 16) && ts.size() > 1)
					qs.push_back(ts[1]);
			}
			/* the placeholder comparison (first range, left-hand side open) handles one output line:
			 * an instant in the first range is asked alone */
			for (int64_t tq : qs)
				if (!m.ent.empty() && m.idx_at(tq) == 0) {
					qs = {tq};
					break;
				}
			q.argv = {"dzone", "--next", "--prev", "/sim/zi/Z"};
			auto tr = [&](int64_t at, int32_t off) { return model::fmt_iso(at + off) + zstr(off); };
			for (int64_t tq : qs) {
				q.argv.push_back(model::fmt_iso(tq));
				long idx = m.idx_at(tq);
				std::string nx, pv;
				if (m.ent.empty() || (size_t)(idx + 1) >= m.ent.size())
					nx = "never -> never";
				else
					nx = tr(m.ent[(size_t)idx + 1].t, m.off_at(tq)) + " -> " + tr(m.ent[(size_t)idx + 1].t, m.ent[(size_t)idx + 1].off);
				if (m.ent.empty() || idx < 0)
					pv = "never <- never";
				else if (idx == 0)
					/* the adjacent entry is the first one; the offset in force before it is not in the table,
					 * so only the right-hand side is judged */
					pv = "\x01 <- " + tr(m.ent[0].t, m.ent[0].off);
				else
					pv = tr(m.ent[(size_t)idx].t, m.ent[(size_t)idx - 1].off) + " <- " + tr(m.ent[(size_t)idx].t, m.ent[(size_t)idx].off);
				expect += nx + "\t/sim/zi/Z\n" + pv + "\t/sim/zi/Z\n";
			}
			if (collect && qs.size() > 1)
				st.named["tool_dzone_several_instants"]++;
			for (auto &e : m.ent)
				if (e.t < -11644000000LL || e.t > 60000000000LL)
					return v;
		}
		/* the same values as arguments, as plain stdin lines, in sed mode or in empty mode: four reader paths */
		if (mode != 3 && mode != 5 && q.argv[1] != "-b") {
			unsigned delivery = (unsigned)((p.hash() >> 11) % 4);
			size_t nfix = mode == 4 ? 7 : 5;
			if (delivery && q.argv.size() > nfix) {
				for (size_t i = nfix; i < q.argv.size(); i++)
					q.input += q.argv[i] + "\n";
				q.argv.resize(nfix);
				q.has_input = true;
				if (delivery == 2)
					q.argv.insert(q.argv.begin() + 1, "-S");
				else if (delivery == 3)
					q.argv.insert(q.argv.begin() + 1, "-E");
				if (collect)
					st.named[delivery == 1 ? "tool_values_on_stdin" : delivery == 2 ? "tool_values_in_sed_mode" : "tool_values_in_empty_mode"]++;
			}
		}
		if (zpath != "/sim/zi/Z") {
			for (auto &a : q.argv)
				if (a == "/sim/zi/Z")
					a = zpath;
			size_t at = 0;
			while ((at = expect.find("\t/sim/zi/Z\n", at)) != std::string::npos) {
				expect.replace(at + 1, 9, zpath);
				at += zpath.size();
			}
			if (collect && zpath.size() > 64)
				st.named["tool_long_zone_path"]++;
		}
		RunResult r = run_plan(q);
		st.add_probes(r);
		if (collect)
			st.named[mode == 1 ? "tool_dconv_zone" : mode == 2 ? "tool_dconv_from_zone" : mode == 4 ? "tool_dconv_from_zone_to_zone" : mode == 5 ? "tool_dzone_many_zones_few_descriptors" : "tool_dzone_next_prev"]++;
		std::string cmd;
		for (auto &a : q.argv)
			cmd += a + " ";
		if (r.crashed()) {
			v.ok = false;
			v.cls = r.hang ? "zone/hang" : "zone/memory";
			v.predicate = "tool_level";
			v.detail = cmd + ": " + r.status_str() + " " + asan_summary(r.err);
			return v;
		}
		/* with a long path only the transition column is compared: what dzone makes of a name that does not fit
		 * its line buffer is not this property's business */
		std::string got = r.out;
		if (mode == 3 && zpath.size() > 40) {
			auto cut = [](const std::string &o) {
				std::string res;
				for (auto &l : split_lines_keep(o)) {
					size_t t = l.find('\t');
					res += t == std::string::npos ? l : l.substr(0, t) + "\n";
				}
				return res;
			};
			got = cut(got);
			expect = cut(expect);
		}
		bool same = got == expect;
		size_t wild = expect.find('\x01');
		if (!same && wild != std::string::npos) {
			/* "<anything> <- <first entry>": compare what is in front of and behind the placeholder */
			std::string head = expect.substr(0, wild), tail = expect.substr(wild + 1);
			same = got.size() >= head.size() + tail.size() && got.compare(0, head.size(), head) == 0 &&
			       got.compare(got.size() - tail.size(), tail.size(), tail) == 0 &&
			       got.substr(head.size(), got.size() - head.size() - tail.size()).find('\n') == std::string::npos;
			if (collect && same)
				st.named["tool_dzone_prev_in_first_range"]++;
		}
		if (!same) {
			v.ok = false;
			v.cls = mode == 3 ? "zone/range" : mode == 2 ? "zone/inverse" : "zone/offset";
			v.predicate = std::string("tool_level") + (mode == 4 ? " from_zone_to_zone" : "");
			v.detail = cmd + "prints " + cquote(r.out, 160) + ", the file says " + cquote(expect, 160);
		}
		return v;
	}

	std::vector<Plan> candidates(const Plan &p) override
	{
		std::vector<Plan> out;
		for (auto &vv : chunk_removals(p.ops)) {
			Plan q = p;
			q.ops = vv;
			out.push_back(q);
		}
		if (p.par.count("tool")) {
			Plan q = p;
			q.par.erase("tool");
			out.push_back(q);
		}
		/* simpler op kinds */
		for (size_t i = 0; i < p.ops.size() && i < 8; i++)
			if (p.ops[i].kind != "L") {
				Plan q = p;
				q.ops[i].kind = "L";
				out.push_back(q);
			}
		return out;
	}
};

} /* anon */

std::string synth_zone_image(Rng &r, bool many_types)
{
	ZoneSpec z = gen_zone(r);
	if (many_types) {
		/* every value of the one-byte type index in use, few transitions: what lies in front of the
		 * offset table is then outside the loaded data */
		while (z.off.size() < 256)
			z.off.push_back((int32_t)r.range(-48, 56) * 900);
		if (z.tr.size() > 24) {
			z.tr.resize(24);
			z.ty.resize(24);
		}
		for (auto &t : z.ty)
			t = (int)r.range(100, 255);
	}
	return zone_bytes(z);
}

Engine *make_zone_engine() { return new ZoneEngine(false); }
Engine *make_zoneh_engine() { return new ZoneEngine(true); }

} /* namespace sim */
