/* invgen.h -- seeded grammar of tool invocations shared by the hist, env and stream engines
 *
 * The engines' oracles are differential over histories, environments and read schedules, so the
 * grammar does not need to know what an invocation prints; it has to know (a) that the tool treats
 * its values independently, (b) whether the input determines every field (C20) and (c) how a value
 * looks in the chosen input format, so that most generated values are accepted by the real parser. */
#pragma once
#include "sim.h"
#include "models.h"
#include <string>
#include <vector>

namespace sim {
namespace inv {

struct Civ {
	int y, m, d, H, M, S;
};

static const char *const en_amon[] = {"Jan", "Feb", "Mar", "Apr", "May", "Jun", "Jul", "Aug", "Sep", "Oct", "Nov", "Dec"};
static const char *const en_lmon[] = {"January", "February", "March", "April", "May", "June", "July", "August", "September", "October", "November", "December"};
static const char *const en_awd[] = {"Mon", "Tue", "Wed", "Thu", "Fri", "Sat", "Sun"};
static const char *const en_lwd[] = {"Monday", "Tuesday", "Wednesday", "Thursday", "Friday", "Saturday", "Sunday"};

static inline Civ rand_civ(Rng &r, int ylo = 1900, int yhi = 2090)
{
	Civ c;
	c.y = (int)r.range(ylo, yhi);
	c.m = (int)r.range(1, 12);
	unsigned md = model::mdays(c.y, (unsigned)c.m);
	/* month ends and beginnings are where clamping and week logic live */
	unsigned k = (unsigned)r.below(10);
	c.d = k == 0 ? (int)md : k == 1 ? 1 : (int)r.range(1, md);
	c.H = (int)r.below(24);
	c.M = (int)r.below(60);
	c.S = (int)r.below(60);
	if (r.chance(1, 12))
		c.H = 23, c.M = 59, c.S = 59;
	else if (r.chance(1, 12))
		c.H = c.M = c.S = 0;
	return c;
}

/* ISO 8601 week date */
static inline void iso_week(const Civ &c, int &G, int &V, int &u)
{
	int64_t days = model::days_from_civil(c.y, (unsigned)c.m, (unsigned)c.d);
	unsigned wd = model::weekday(days);	/* 0 = Monday */
	u = (int)wd + 1;
	int64_t thursday = days - wd + 3;
	int64_t ty;
	unsigned tm, td;
	model::civil_from_days(thursday, ty, tm, td);
	G = (int)ty;
	int64_t jan1 = model::days_from_civil(ty, 1, 1);
	V = (int)((thursday - jan1) / 7) + 1;
}

/* the value in the given input format, English names; specifiers outside the list come out verbatim */
static inline std::string fmt_value(const std::string &fmt, const Civ &c)
{
	std::string s;
	char b[64];
	int64_t days = model::days_from_civil(c.y, (unsigned)c.m, (unsigned)c.d);
	unsigned wd = model::weekday(days);
	for (size_t i = 0; i < fmt.size(); i++) {
		if (fmt[i] != '%' || i + 1 >= fmt.size()) {
			s += fmt[i];
			continue;
		}
		char f = fmt[++i];
		b[0] = 0;
		if (f == 'O' && i + 1 < fmt.size()) {
			/* roman numerals */
			char g = fmt[++i];
			int v = g == 'y' ? c.y % 100 : g == 'Y' ? c.y : g == 'm' ? c.m : c.d;
			static const int val[] = {1000, 900, 500, 400, 100, 90, 50, 40, 10, 9, 5, 4, 1};
			static const char *sym[] = {"M", "CM", "D", "CD", "C", "XC", "L", "XL", "X", "IX", "V", "IV", "I"};
			if (v == 0)
				v = 100;	/* no roman zero: the year ..00 is not generated, see inv_value */
			for (int k = 0; k < 13; k++)
				while (v >= val[k]) {
					s += sym[k];
					v -= val[k];
				}
			continue;
		}
		switch (f) {
		case 'Y': snprintf(b, sizeof(b), "%04d", c.y); break;
		case 'y': snprintf(b, sizeof(b), "%02d", c.y % 100); break;
		case 'm': snprintf(b, sizeof(b), "%02d", c.m); break;
		case 'd': snprintf(b, sizeof(b), "%02d", c.d); break;
		case 'H': snprintf(b, sizeof(b), "%02d", c.H); break;
		case 'M': snprintf(b, sizeof(b), "%02d", c.M); break;
		case 'S': snprintf(b, sizeof(b), "%02d", c.S); break;
		case 'I': snprintf(b, sizeof(b), "%02d", c.H % 12 ? c.H % 12 : 12); break;
		case 'p': snprintf(b, sizeof(b), "%s", c.H < 12 ? "AM" : "PM"); break;
		case 'F': snprintf(b, sizeof(b), "%04d-%02d-%02d", c.y, c.m, c.d); break;
		case 'T': snprintf(b, sizeof(b), "%02d:%02d:%02d", c.H, c.M, c.S); break;
		case 'j': snprintf(b, sizeof(b), "%03d", (int)(days - model::days_from_civil(c.y, 1, 1)) + 1); break;
		case 'b': snprintf(b, sizeof(b), "%s", en_amon[c.m - 1]); break;
		case 'B': snprintf(b, sizeof(b), "%s", en_lmon[c.m - 1]); break;
		case 'a': snprintf(b, sizeof(b), "%s", en_awd[wd]); break;
		case 'A': snprintf(b, sizeof(b), "%s", en_lwd[wd]); break;
		case 'N': snprintf(b, sizeof(b), "%09d", (c.S * 16807 + c.M * 131 + c.d) % 1000 * 1000000 + c.H * 1000 + c.y % 1000); break;
		case 's': snprintf(b, sizeof(b), "%lld", (long long)model::epoch_from_civil(c.y, (unsigned)c.m, (unsigned)c.d, (unsigned)c.H, (unsigned)c.M, (unsigned)c.S)); break;
		case 'G':
		case 'V':
		case 'u': {
			int G, V, u;
			iso_week(c, G, V, u);
			if (f == 'G')
				snprintf(b, sizeof(b), "%04d", G);
			else if (f == 'V')
				snprintf(b, sizeof(b), "%02d", V);
			else
				snprintf(b, sizeof(b), "%d", u);
			break;
		}
		case 'c': snprintf(b, sizeof(b), "%02d", (c.d - 1) / 7 + 1); break;
		case 'w': snprintf(b, sizeof(b), "%02d", wd == 6 ? 0 : (int)wd + 1); break;
		case 'Z': {
			/* a UTC designator or a numeric offset, decided by the value itself */
			static const char *zs[] = {"Z", "+00:00", "+01:00", "-05:30", "+0000", "-00:00", "+12:45", "-03:00"};
			snprintf(b, sizeof(b), "%s", zs[(c.S + c.M + c.d) % 8]);
			break;
		}
		case '%': snprintf(b, sizeof(b), "%%"); break;
		default: snprintf(b, sizeof(b), "%%%c", f); break;
		}
		s += b;
	}
	return s;
}

enum { K_DATE = 0, K_DT = 1, K_TIME = 2 };
struct InFmt {
	const char *fmt;	/* "" = the format-less default parser */
	int kind;
	bool full;		/* determines every field of its kind (no base/now needed) */
	bool sedsafe;		/* has a literal needle or a digit run: tokens embedded in text are found */
};
static const InFmt infmts[] = {
	{"", K_DATE, true, true},
	{"", K_DT, true, true},
	{"%F", K_DATE, true, true},
	{"%d/%m/%Y", K_DATE, true, true},
	{"%d.%m.%Y", K_DATE, true, true},
	{"%Y%m%d", K_DATE, true, true},
	{"%d %b %Y", K_DATE, true, true},
	{"%b %d, %Y", K_DATE, true, true},
	{"%A, %d %B %Y", K_DATE, true, true},
	{"%a %d %b %Y", K_DATE, true, true},
	{"%Y-%j", K_DATE, true, true},
	{"%G-W%V-%u", K_DATE, true, true},
	{"%Y-%m-%c-%w", K_DATE, true, true},
	{"%m/%d/%Y", K_DATE, true, true},
	{"%Y/%m/%d", K_DATE, true, true},
	{"%FT%T", K_DT, true, true},
	{"%F %T", K_DT, true, true},
	{"%d/%m/%Y %H:%M:%S", K_DT, true, true},
	{"%Y%m%dT%H%M%S", K_DT, true, true},
	{"%d %b %Y %H:%M:%S", K_DT, true, true},
	{"%s", K_DT, true, true},
	{"%s.%N", K_DT, true, true},
	{"%FT%T%Z", K_DT, true, true},
	{"%d/%m/%Y %H:%M:%S %Z", K_DT, true, true},
	{"%F %I:%M:%S %p", K_DT, true, true},
	{"%Y%m%d%H%M%S", K_DT, true, true},
	{"%T", K_TIME, true, true},
	{"%H:%M:%S", K_TIME, true, true},
	{"%I:%M:%S %p", K_TIME, true, true},
	/* underspecified: need --base (or the clock) */
	{"%m-%d", K_DATE, false, true},
	{"%d %b", K_DATE, false, true},
	{"%d/%m/%y", K_DATE, false, true},
	{"%Oy-%Om-%Od", K_DATE, false, true},
	{"%Y-%m", K_DATE, false, true},
	{"%d", K_DATE, false, true},
	{"%F %H:%M", K_DT, false, true},
	{"%H:%M", K_TIME, false, true},
	{"%M:%S", K_TIME, false, true},
};
static const size_t n_infmts = sizeof(infmts) / sizeof(*infmts);
static const size_t n_full_infmts = 29;	/* the first entries */

static inline std::string default_value(const Civ &c, int kind, Rng &r, bool sed_forms = false)
{
	/* what the format-less parser takes */
	char b[64];
	if (kind == K_TIME) {
		snprintf(b, sizeof(b), "%02d:%02d:%02d", c.H, c.M, c.S);
		return b;
	}
	if (kind == K_DT) {
		snprintf(b, sizeof(b), "%04d-%02d-%02d%c%02d:%02d:%02d", c.y, c.m, c.d, r.chance(1, 5) ? ' ' : 'T', c.H, c.M, c.S);
		return b;
	}
	unsigned k = (unsigned)r.below(10);
	if (k < 7)
		return fmt_value("%F", c);
	if (k < 8)
		return fmt_value("%G-W%V-0%u", c);
	if (k < 9 && !sed_forms)
		return fmt_value("%Y-%j", c);	/* accepted as an argument, not looked for inside a line */
	return fmt_value("%Y-%m-%c-%w", c);
}

/* output formats: random sequences over the specifier alphabet */
static inline std::string rand_ofmt(Rng &r, int kind, bool zone, bool time_fields_only = false, bool one_line = false)
{
	static const char *dspec[] = {"%F", "%Y", "%m", "%d", "%j", "%b", "%B", "%a", "%A", "%y", "%G", "%V", "%u", "%c", "%w", "%U", "%W", "%C",
				      "%q", "%Q", "%h", "%D", "%g", "%Od", "%Om", "%dth", "%_d", "%-d", "%-m", "%rY", "%G-W%V-%u", "%Y-%m-%c-%w",
				      "%d.%m.%Y", "%d %b %Y", "%A, %B %d %Y"};
	static const char *tspec[] = {"%T", "%H", "%M", "%S", "%I", "%p", "%P", "%N", "%H:%M", "%I:%M %p", "%-H", "%_M"};
	static const char *lits[] = {" ", "-", "/", ":", "T", ", ", ".", "x", " week ", "%%", "%t", "%n", "[", "] ", "on ", "|", "Z", "  ", "#"};
	const size_t nd = sizeof(dspec) / sizeof(*dspec), nt = sizeof(tspec) / sizeof(*tspec), nl = sizeof(lits) / sizeof(*lits);
	std::string f;
	size_t n = (size_t)r.range(1, 6);
	if (r.chance(1, 12))
		n = (size_t)r.range(12, 40);	/* long outputs into the shared buffer */
	else if (r.chance(1, 9)) {
		/* the field that follows starts within a few bytes of the end of the 256-byte output buffer, and its
		 * width depends on the value (names, unpadded numbers) */
		static const char *wide[] = {"%A", "%B", "%A", "%B", "%a", "%b", "%s", "%-d", "%-m", "%Od", "%Om", "%F", "%dth", "%A, %B"};
		f = std::string((size_t)r.range(240, 256), "x-_ "[r.below(4)]);
		f += kind == K_TIME ? "%-H" : wide[r.below(sizeof(wide) / sizeof(*wide))];
		n = (size_t)r.range(0, 2);
	}
	for (size_t i = 0; i < n; i++) {
		unsigned k = (unsigned)r.below(100);
		bool wantt = time_fields_only || (kind == K_TIME ? k < 80 : kind == K_DT ? k < 40 : k < 6);
		if (k >= 94 && kind != K_TIME && !time_fields_only)
			f += "%s";
		else if (wantt)
			f += tspec[r.below(nt)];
		else
			f += dspec[r.below(nd)];
		if (i + 1 < n || r.chance(1, 4)) {
			const char *l = lits[r.below(nl)];
			f += one_line && !strcmp(l, "%n") ? " " : l;
		}
	}
	if (zone && r.chance(2, 3))
		f += "%Z";
	return f;
}
static const char *const special_ofmts[] = {"ymd", "ymcw", "ywd", "yd", "bizda", "lilian", "ldn", "julian", "jdn", "matlab", "mdn", "daisy"};

static const char *const inv_zones[] = {"Europe/Berlin", "America/New_York", "Asia/Gaza", "Australia/Lord_Howe", "Asia/Tokyo", "Asia/Kathmandu",
					"Africa/Casablanca", "America/St_Johns", "Pacific/Apia", "UTC", "EST", "EST5EDT", "MST", "MST7MDT", "NZ",
					"NZ-CHAT", "Etc/GMT-1", "Etc/GMT-10", "Etc/GMT-14", "GMT", "GMT0", "Europe/Dublin", "America/Sao_Paulo",
					"Asia/Tehran", "Antarctica/Troll", "Pacific/Kiritimati", "America/Caracas", "Europe/Moscow",
					"+05:00", "+03:00", "+00:45", "+09:30", "+13:00", "+05:00"};
static const size_t n_inv_zones = sizeof(inv_zones) / sizeof(*inv_zones);

static const char *const durs_date[] = {"+1d", "-1d", "+1mo", "-1mo", "+1y", "-1y", "+3w", "-2w", "+2d", "+100d", "+1mo1d", "-1y2mo",
					"+0d", "+12mo", "+7d", "-30d", "+1w1d", "+400d", "+4y", "-11mo"};
static const char *const durs_time[] = {"+1h", "-1h", "+12h", "-90m", "+3600s", "+86400s", "+36h", "-1s", "+59m", "+1h30m", "+25h", "-1440m"};
static const char *const rnd_date[] = {"Mon", "Tue", "Sat", "Sun", "-Fri", "1", "15", "31", "-1", "-31", "Feb", "Dec", "-Jan", "1d", "Jul", "28"};
static const char *const rnd_time[] = {"1h", "30m", "15m", "1m", "10s", "-1h", "-30m", "12h", "6h", "/1h", "/-1h", "2h"};
static const char *const ddiff_ofmts_date[] = {"%d", "%m mo %d d", "%w w %d d", "%y y %m mo", "%y-%m-%d", "%b", "%dd", "%w", "%m"};
static const char *const ddiff_ofmts_dt[] = {"%S", "%dd %Hh %Mm %Ss", "%H:%M:%S", "%d %H", "%M", "%w w %d d %H h", "%rS", "%T", "%m mo %d d %S s"};

/* zone handles and maps are cached by name: pairs in which the first name is a proper prefix of the second */
static const char *const zone_prefix_pairs[][2] = {{"EST", "EST5EDT"}, {"MST", "MST7MDT"}, {"NZ", "NZ-CHAT"}, {"GMT", "GMT0"}, {"Etc/GMT-1", "Etc/GMT-10"},
						  {"Etc/GMT-1", "Etc/GMT-14"}, {"Etc/GMT+1", "Etc/GMT+10"}, {"Etc/GMT+1", "Etc/GMT+12"}, {"GMT", "GMT-0"},
						  {"America/Indiana", "America/Indianapolis"}};
static inline void zone_pair(Rng &r, const char *&z1, const char *&z2)
{
	if (r.chance(1, 4)) {
		size_t k = r.below(9);	/* the last pair's first member is a directory, not a zone */
		z1 = zone_prefix_pairs[k][0];
		z2 = zone_prefix_pairs[k][1];
		if (r.chance(1, 5))
			std::swap(z1, z2);
		return;
	}
	z1 = inv_zones[r.below(n_inv_zones)];
	z2 = inv_zones[r.below(n_inv_zones)];
}

struct Inv {
	std::string tool;
	std::vector<std::string> fixed;	/* argv without the tool name and without the values */
	int mode = 0;			/* 0 values are arguments, 1 stdin lines, 2 stdin text lines in sed mode */
	int kind = K_DATE;
	std::vector<std::string> ifmts;	/* the -i formats values are drawn from; empty = default parser */
	size_t pos_at = 0;		/* index into fixed where the operands (durations, rounding targets) begin */
	bool many_if = false, empty_mode = false, sed_default_forms = false, no_junk = false, day_gt12 = false, day_mon_1012 = false, first_fmt_only = false;
	/* narrow: every value lies in one month, in several calendars, with day numbers and count/weekday pairs that
	 * coincide numerically (ymd day d next to ymcw count c and weekday w with d == 8c + w, the packed layout) */
	bool narrow = false;
	int ny = 2012, nm = 3;
	mutable std::vector<int> ndays;
	bool full = true;		/* every value determines all fields */
	bool has_base = false;
	bool zone = false;
	bool textlines = false;		/* values are embedded in text (dgrep, sed mode) */
	std::vector<std::string> zones;	/* zone names used (to embed their files) */
	bool dzone = false;
};

/* one value in the invocation's input vocabulary */
static inline std::string inv_value(Rng &r, const Inv &iv)
{
	Civ c = rand_civ(r);
	unsigned k = (unsigned)r.below(100);
	if (k < 4)
		c.y = 1800, c.m = 1, c.d = 1;		/* before the first transition of every zone */
	else if (k < 8)
		c.y = (int)r.range(2040, 2086);		/* transition index above 255 in Asia/Gaza */
	else if (k < 10)
		c.y = 1969, c.m = 7, c.d = 20;
	if (k >= 96 && !iv.no_junk) {
		static const char *junk[] = {"foo", "", "2012-13-45", "99", "2012-02-30", "24:00:00", "T", "2012-01-01T", "0000-00-00", " ", "1e9", "31/02/2012", "Feb 30, 2012"};
		return junk[r.below(sizeof(junk) / sizeof(*junk))];
	}
	/* day 20 or 30: it cannot be a month, and neither can what is left of it when the finder starts one digit later */
	if (iv.day_gt12)
		c.d = c.m != 2 && r.chance(1, 2) ? 30 : 20;
	if (iv.narrow && iv.ifmts.empty() && iv.kind != K_TIME) {
		char b[64];
		std::string tm;
		if (iv.kind == K_DT) {
			snprintf(b, sizeof(b), "T%02d:%02d:%02d", c.H, c.M, c.S);
			tm = b;
		}
		unsigned md = model::mdays(iv.ny, (unsigned)iv.nm);
		if (!iv.ndays.empty() && r.chance(1, 2)) {
			/* the count-weekday spelling whose packed fields equal an earlier day number */
			int d = iv.ndays[r.below(iv.ndays.size())];
			int cc = d / 8, w = d % 8;
			if (cc >= 1 && cc <= 5 && w >= 1 && w <= 7) {
				snprintf(b, sizeof(b), "%04d-%02d-%02d-%02d", iv.ny, iv.nm, cc, w);
				return b + tm;
			}
		}
		int d = (int)r.range(9, md);
		if (iv.ndays.size() < 64)
			iv.ndays.push_back(d);
		snprintf(b, sizeof(b), "%04d-%02d-%02d", iv.ny, iv.nm, d);
		return b + tm;
	}
	if (iv.ifmts.empty())
		return default_value(c, iv.kind, r, iv.sed_default_forms);
	const std::string &f = iv.ifmts[iv.first_fmt_only ? 0 : r.below(iv.ifmts.size())];
	if (f.find("%Oy") != std::string::npos && c.y % 100 == 0)
		c.y += 1 + (int)r.below(98);
	if (iv.day_mon_1012) {
		c.d = 10 + (int)r.below(3);
		c.m = 10 + (int)r.below(3);
	}
	if (f.compare(0, 2, "%s") == 0 && c.y < 1970)
		c.y += 100;
	if (f.compare(0, 2, "%s") == 0 && r.chance(1, 4))
		c.y = 1970, c.m = 1, c.d = 1, c.H = c.M = 0, c.S = (int)r.below(2);	/* the epoch itself and the second after */
	return fmt_value(f, c);
}

static inline std::string text_around(Rng &r, const std::string &v)
{
	static const char *pre[] = {"", "x ", "log: ", "[", "at ", "-- ", "\t", "(", "a b c "};
	static const char *post[] = {"", " y", "]", " end", ";", ")", "\t", " -- z", " ,"};
	return std::string(pre[r.below(9)]) + v + post[r.below(9)];
}

/* overlapping input formats: a value of one member is accepted (wholly or as a prefix) by another, so
 * the order in which the tool tries them matters and must not depend on earlier lines */
static const char *const fam_dmy[] = {"%d/%m/%Y", "%m/%d/%Y"};
static const char *const fam_iso[] = {"%F %T", "%F", "%F %H:%M"};
static const char *const fam_cmp[] = {"%Y%m%d", "%Y%m%d%H%M%S", "%Y%m%dT%H%M%S"};
static const char *const fam_dot[] = {"%d.%m.%Y", "%d.%m.%y", "%m.%d.%Y"};
static const char *const fam_nam[] = {"%d %b %Y", "%d %B %Y", "%d %b %Y %H:%M:%S"};
struct Fam {
	const char *const *f;
	size_t n;
	int kind;
};
static const Fam fams[] = {{fam_dmy, 2, K_DATE}, {fam_iso, 3, K_DT}, {fam_cmp, 3, K_DT}, {fam_dot, 3, K_DATE}, {fam_nam, 3, K_DATE}};

/* --base in every spelling the tools take */
static inline std::string rand_base(Rng &r)
{
	Civ b = rand_civ(r);
	if (r.chance(1, 4)) {
		/* the ends of the supported range */
		static const int ys[] = {1601, 1601, 1602, 1700, 2400, 4094, 4095, 4095};
		b.y = ys[r.below(8)];
		if (b.d > 28)
			b.d = 28;
	}
	if (r.chance(1, 10))
		return fmt_value("%F", b) + (r.chance(1, 2) ? "T24:00:00" : "T23:59:60");	/* both are accepted times of day */
	switch (r.below(8)) {
	case 0:
	case 1:
		return fmt_value("%F", b);
	case 2:
	case 3:
		return fmt_value("%FT%T", b);
	case 4:
		if (b.y < 1970 || b.y > 2400)
			b.y = 1970 + b.y % 400;
		return "@" + fmt_value("%s", b);
	case 5:
		return fmt_value("%G-W%V-0%u", b);
	case 6:
		return fmt_value("%Y-%j", b);
	default:
		return fmt_value("%F %T", b);
	}
}

struct GenOpt {
	const char *tool = nullptr;	/* NULL: any of the line-independent tools */
	bool want_full = false;		/* C20: inputs that determine every field, or --base */
	int force_mode = -1;		/* 0 args, 1 stdin, 2 sed */
	size_t max_if = 3;		/* at most this many -i formats (0: default parser only) */
	bool allow_sed = true;
	bool allow_many_if = true;
	bool no_junk = false;		/* values always well-formed in the chosen format */
	bool sed_families = false;	/* now and then two formats sharing a needle character, values parse under exactly one */
	bool one_line = false;		/* no %n in output formats (sed mode: one output line per input line) */
	bool sed_default_forms = false;	/* format-less values only in the forms the sed-mode finder looks for */	/* now and then 8..40 -i formats (needle tables are sized from the count) */
};

static inline Inv rand_inv(Rng &r, const GenOpt &go)
{
	Inv iv;
	static const char *tools[] = {"dconv", "dconv", "dadd", "dround", "ddiff", "dgrep"};
	iv.tool = go.tool ? go.tool : tools[r.below(6)];
	iv.sed_default_forms = go.sed_default_forms;
	iv.no_junk = go.sed_default_forms || go.no_junk;
	const std::string &t = iv.tool;
	/* kind and input formats */
	unsigned kk = (unsigned)r.below(100);
	iv.kind = kk < 45 ? K_DATE : kk < 92 ? K_DT : K_TIME;
	size_t nif = go.max_if == 0 || r.chance(2, 5) ? 0 : (size_t)r.range(1, (int64_t)go.max_if);
	bool under = !go.want_full ? r.chance(1, 8) : r.chance(1, 5);
	std::vector<std::string> ifmts;
	auto loose = [&](const char *f) {
		/* dadd and dround take their first operand for a date if it parses as one: a bare number format
		 * would swallow the duration or rounding target and the tool would not read stdin at all */
		return (t == "dadd" || t == "dround") && (!strcmp(f, "%s") || !strcmp(f, "%d"));
	};
	if (go.sed_families && r.chance(1, 4)) {
		/* (day/month swaps are not among them: the parsers take 0 for a month, so the finder reads `0/11/1908'
		 * out of `30/11/1908' under %m/%d/%Y, which no choice of day avoids) */
		static const char *const sf[][2] = {{"%d-%b-%Y", "%Y-%m-%d"}, {"%Y/%m/%d", "%d/%m/%Y"}, {"%d/%m/%Y", "%Y/%m/%d"}, {"%d %b %Y", "%b %d, %Y"},
						    {"%b %d, %Y", "%d %b %Y"}, {"%Y-%m-%d", "%d-%b-%Y"}, {"%d-%m-%Y", "%Y-%m-%d"}, {"%Y-%m-%d", "%d-%m-%Y"}};
		size_t k = r.below(sizeof(sf) / sizeof(*sf));
		if (r.chance(1, 4)) {
			/* day and month swapped, day and month both 10..12: either format reads the whole value, the one
			 * given first must win; values are drawn from the first format only */
			static const char *const sw[][2] = {{"%d/%m/%Y", "%m/%d/%Y"}, {"%m/%d/%Y", "%d/%m/%Y"}, {"%d.%m.%Y", "%m.%d.%Y"}, {"%m-%d-%Y", "%d-%m-%Y"}};
			size_t q = r.below(4);
			ifmts.push_back(sw[q][0]);
			ifmts.push_back(sw[q][1]);
			iv.kind = K_DATE;
			iv.day_mon_1012 = true;
			iv.first_fmt_only = true;
		} else {
		ifmts.push_back(sf[k][0]);
		ifmts.push_back(sf[k][1]);
		iv.kind = K_DATE;
		iv.day_gt12 = true;
		}	/* days that cannot be read as a month, whole or in part: one format only takes the value */
	} else if (nif >= 2 && go.max_if >= 2 && r.chance(1, 3)) {
		/* an overlapping family, in a seeded order */
		const Fam &f = fams[r.below(sizeof(fams) / sizeof(*fams))];
		std::vector<size_t> order;
		for (size_t i = 0; i < f.n; i++)
			order.push_back(i);
		for (size_t i = f.n; i > 1; i--)
			std::swap(order[i - 1], order[r.below(i)]);
		size_t take = (size_t)r.range(2, (int64_t)f.n);
		for (size_t i = 0; i < take; i++)
			ifmts.push_back(f.f[order[i]]);
		iv.kind = f.kind;
		for (auto &x : ifmts)
			if (x.find("%y") != std::string::npos || x == "%F %H:%M")
				iv.full = false;
	} else {
		for (size_t i = 0; i < nif; i++) {
			for (int tries = 0; tries < 40; tries++) {
				size_t x = under ? n_full_infmts + r.below(n_infmts - n_full_infmts) : r.below(n_full_infmts);
				if (infmts[x].kind != iv.kind && !(tries > 20))
					continue;
				if (!*infmts[x].fmt || loose(infmts[x].fmt))
					continue;
				/* roman numerals inside running text: the finder reads VI-VIII-V out of XXVI-VIII-V, no
				 * separator convention avoids that; such formats stay with the argument and stdin modes */
				if (go.sed_default_forms && strstr(infmts[x].fmt, "%O"))
					continue;
				if (i == 0)
					iv.kind = infmts[x].kind;
				ifmts.push_back(infmts[x].fmt);
				if (!infmts[x].full)
					iv.full = false;
				break;
			}
		}
	}
	/* many formats: the tools size their needle tables from the number of -i options */
	if (go.allow_many_if && !ifmts.empty() && r.chance(1, 10)) {
		static const size_t counts[] = {7, 8, 9, 15, 16, 17, 23, 24, 25, 31, 32, 33, 40};
		size_t want = counts[r.below(sizeof(counts) / sizeof(*counts))];
		/* every filler determines a complete date, so that a stray match cannot make the result depend on the clock */
		static const char *filler[] = {"q%Yq%mq%d", "%Y_%m_%d", "%d~%m~%Y", "<%F>", "#%j#%Y", "%Y:%m:%d", "%d|%m|%Y", "%m;%d;%Y", "%Y=%j", "%Yx%mx%d",
					       "%b/%d/%Y", "%B %Y %d", "%G w%V %u", "%Y+%m+%d", "%d^%m^%Y", "{%F}", "%Y %d %b", "%d*%m*%Y", "%Y&%j", "%m'%d'%Y"};
		size_t nfill = want > ifmts.size() ? want - ifmts.size() : 0;
		size_t at = r.below(nfill + 1);	/* where the real formats sit among the fillers */
		std::vector<std::string> all;
		for (size_t k = 0; k < nfill; k++) {
			if (k == at)
				all.insert(all.end(), ifmts.begin(), ifmts.end());
			all.push_back(std::string(filler[k % 20]) + (k >= 20 ? std::string(1, (char)('a' + k / 20)) : ""));
		}
		if (at >= nfill)
			all.insert(all.end(), ifmts.begin(), ifmts.end());
		for (auto &x : all) {
			iv.fixed.push_back("-i");
			iv.fixed.push_back(x);
		}
		iv.many_if = true;
	} else {
		for (auto &x : ifmts) {
			iv.fixed.push_back("-i");
			iv.fixed.push_back(x);
		}
	}
	iv.ifmts = ifmts;
	if (ifmts.empty() && iv.kind != K_TIME && !go.sed_default_forms && r.chance(1, 6)) {
		iv.narrow = true;
		iv.ny = (int)r.range(1990, 2030);
		iv.nm = (int)r.range(1, 12);
	}
	/* a bare time needs a date from somewhere as soon as zones or epoch output come in */
	bool timeonly = iv.kind == K_TIME;
	if (!iv.full || (go.want_full && timeonly && r.chance(1, 2)) || r.chance(1, 16)) {
		iv.fixed.push_back(r.chance(1, 2) ? "--base" : "-b");
		iv.fixed.push_back(rand_base(r));
		iv.has_base = true;
	}
	/* zones */
	bool canzone = t != "ddiff" && t != "dgrep";
	unsigned zk = (unsigned)r.below(100);
	if ((!timeonly || iv.has_base || !go.want_full) && zk < 40) {
		const char *z1, *z2;
		zone_pair(r, z1, z2);
		if (zk < 18 && canzone) {
			iv.fixed.push_back(r.chance(1, 2) ? "--zone" : "-z");
			iv.fixed.push_back(z1);
			iv.zones.push_back(z1);
			iv.zone = true;
		} else if (zk < 30) {
			iv.fixed.push_back("--from-zone");
			iv.fixed.push_back(z1);
			iv.zones.push_back(z1);
		} else if (canzone) {
			iv.fixed.push_back("--from-zone");
			iv.fixed.push_back(z1);
			iv.fixed.push_back("--zone");
			iv.fixed.push_back(z2);
			iv.zones.push_back(z1);
			iv.zones.push_back(z2);
			iv.zone = true;
		}
	}
	/* output format */
	bool has_f = t != "dgrep";
	if (has_f && t != "ddiff") {
		unsigned fk = (unsigned)r.below(100);
		if (fk < 60) {
			iv.fixed.push_back(r.chance(1, 2) ? "-f" : "--format");
			/* date fields, epoch or zone output of a bare time borrow the date: only with --base */
			std::string of = rand_ofmt(r, iv.kind, iv.zone, timeonly && !iv.has_base && go.want_full, go.one_line);
			iv.fixed.push_back(of);
		} else if (fk < 68 && iv.kind != K_TIME) {
			iv.fixed.push_back("-f");
			iv.fixed.push_back(special_ofmts[r.below(sizeof(special_ofmts) / sizeof(*special_ofmts))]);
		}
	}
	if (r.chance(1, 6))
		iv.fixed.push_back("-q");
	if (r.chance(1, 8) && t != "dzone")
		iv.fixed.push_back("-e");
	/* tool specific fixed operands and the mode */
	unsigned mk = (unsigned)r.below(100);
	auto pick_mode = [&](int dflt) { return go.force_mode >= 0 ? go.force_mode : dflt == 2 && !go.allow_sed ? 1 : dflt; };
	if (t == "dconv") {
		iv.mode = pick_mode(mk < 35 ? 0 : mk < 75 ? 1 : 2);
		iv.pos_at = iv.fixed.size();
	} else if (t == "dadd") {
		iv.mode = pick_mode(mk < 65 ? 1 : 2);
		if (iv.mode == 0)
			iv.mode = 1;
		iv.pos_at = iv.fixed.size();
		size_t nd = (size_t)r.range(1, 3);
		for (size_t i = 0; i < nd; i++) {
			bool td = iv.kind == K_TIME || (iv.kind == K_DT && r.chance(1, 2));
			iv.fixed.push_back(td ? durs_time[r.below(sizeof(durs_time) / sizeof(*durs_time))] : durs_date[r.below(sizeof(durs_date) / sizeof(*durs_date))]);
		}
	} else if (t == "dround") {
		if (r.chance(1, 5))
			iv.fixed.push_back(r.chance(1, 2) ? "-n" : "--next");
		size_t nd = (size_t)r.range(1, 3);
		bool dashed = false;
		std::vector<std::string> specs;
		for (size_t i = 0; i < nd; i++) {
			bool td = iv.kind == K_TIME || (iv.kind == K_DT && r.chance(1, 2));
			std::string sp = td ? rnd_time[r.below(sizeof(rnd_time) / sizeof(*rnd_time))] : rnd_date[r.below(sizeof(rnd_date) / sizeof(*rnd_date))];
			if (sp[0] == '-')
				dashed = true;
			specs.push_back(sp);
		}
		iv.mode = pick_mode(mk < 65 ? 1 : 2);
		if (iv.mode == 0)
			iv.mode = 1;
		if (dashed)
			iv.fixed.push_back("--");
		iv.pos_at = iv.fixed.size();
		for (auto &sp : specs)
			iv.fixed.push_back(sp);
	} else if (t == "ddiff") {
		if (r.chance(3, 4)) {
			iv.fixed.push_back("-f");
			iv.fixed.push_back(iv.kind == K_DATE ? ddiff_ofmts_date[r.below(sizeof(ddiff_ofmts_date) / sizeof(*ddiff_ofmts_date))]
							      : ddiff_ofmts_dt[r.below(sizeof(ddiff_ofmts_dt) / sizeof(*ddiff_ofmts_dt))]);
		}
		std::string ref = inv_value(r, iv);
		if (ref.empty() || ref[0] == '-')
			ref = fmt_value("%F", rand_civ(r));
		iv.fixed.push_back(ref);	/* the reference */
		iv.mode = go.force_mode >= 0 && go.force_mode < 2 ? go.force_mode : mk < 50 ? 0 : 1;
		iv.pos_at = iv.fixed.size();
	} else if (t == "dgrep") {
		static const char *ops[] = {"<", "<=", ">", ">=", "=", "!=", "<>"};
		if (r.chance(1, 4))
			iv.fixed.push_back("-o");
		if (r.chance(1, 4))
			iv.fixed.push_back("-v");
		Inv plain = iv;
		std::string e;
		if (r.chance(1, 4)) {
			static const char *lops[] = {"--lt", "--le", "--gt", "--ge", "--eq", "--ne", "--ot", "--nt"};
			iv.fixed.push_back(lops[r.below(8)]);
			std::string v = inv_value(r, plain);
			iv.fixed.push_back(v.empty() || v[0] == '-' ? "2012-03-04" : v);
		} else {
			size_t nt = (size_t)r.range(1, 3);
			for (size_t i = 0; i < nt; i++) {
				std::string v = inv_value(r, plain);
				if (v.empty() || v.find_first_of("&|()!") != std::string::npos)
					v = fmt_value("%F", rand_civ(r));
				if (i)
					e += r.chance(1, 2) ? " && " : " || ";
				if (r.chance(1, 8))
					e += "!";
				e += std::string(ops[r.below(7)]) + v;
			}
			iv.fixed.push_back(e);
		}
		iv.mode = 1;
		iv.pos_at = iv.fixed.size();
		iv.textlines = true;
	}
	if (iv.mode == 2) {
		iv.fixed.insert(iv.fixed.begin(), "-S");
		iv.pos_at++;
		if (r.chance(1, 6)) {
			iv.fixed.insert(iv.fixed.begin() + 1, "-E");
			iv.pos_at++;
			iv.empty_mode = true;
		}
		iv.textlines = true;
	} else if (iv.mode == 1 && t != "dgrep" && r.chance(1, 5)) {
		/* empty mode on plain stdin: unparsable lines come out as empty lines, a separate reader path */
		iv.fixed.insert(iv.fixed.begin(), r.chance(1, 2) ? "-E" : "--empty-mode");
		iv.pos_at++;
		iv.empty_mode = true;
	}
	return iv;
}

static inline Inv rand_inv(Rng &r, const char *only_tool, bool want_full, bool allow_sed)
{
	GenOpt go;
	go.tool = only_tool;
	go.want_full = want_full;
	go.allow_sed = allow_sed;
	return rand_inv(r, go);
}

static inline std::vector<std::string> inv_argv(const Inv &iv)
{
	std::vector<std::string> a{iv.tool};
	a.insert(a.end(), iv.fixed.begin(), iv.fixed.end());
	return a;
}

} /* namespace inv */
} /* namespace sim */
