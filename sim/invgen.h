/* invgen.h -- seeded grammar of tool invocations shared by the hist, env and stream engines
 *
 * The engines' oracles are differential over histories, environments and read schedules, so the
 * grammar does not need to know what an invocation prints; it has to know (a) that the tool treats
 * its values independently, (b) whether the input determines every field (C20) and (c) how a value
 * looks in the chosen input format, so that most generated values are accepted by the real parser. */
#pragma once
#include "sim.h"
#include "models.h"
#include <string>
#include <vector>

namespace sim {
namespace inv {

struct Civ {
	int y, m, d, H, M, S;
};

static const char *const en_amon[] = {"Jan", "Feb", "Mar", "Apr", "May", "Jun", "Jul", "Aug", "Sep", "Oct", "Nov", "Dec"};
static const char *const en_lmon[] = {"January", "February", "March", "April", "May", "June", "July", "August", "September", "October", "November", "December"};
static const char *const en_awd[] = {"Mon", "Tue", "Wed", "Thu", "Fri", "Sat", "Sun"};
static const char *const en_lwd[] = {"Monday", "Tuesday", "Wednesday", "Thursday", "Friday", "Saturday", "Sunday"};

static inline Civ rand_civ(Rng &r, int ylo = 1900, int yhi = 2090)
{
	Civ c;
	c.y = (int)r.range(ylo, yhi);
	c.m = (int)r.range(1, 12);
	unsigned md = model::mdays(c.y, (unsigned)c.m);
	/* month ends and beginnings are where clamping and week logic live */
	unsigned k = (unsigned)r.below(10);
	c.d = k == 0 ? (int)md : k == 1 ? 1 : (int)r.range(1, md);
	c.H = (int)r.below(24);
	c.M = (int)r.below(60);
	c.S = (int)r.below(60);
	if (r.chance(1, 12))
		c.H = 23, c.M = 59, c.S = 59;
	else if (r.chance(1, 12))
		c.H = c.M = c.S = 0;
	return c;
}

/* ISO 8601 week date */
static inline void iso_week(const Civ &c, int &G, int &V, int &u)
{
	int64_t days = model::days_from_civil(c.y, (unsigned)c.m, (unsigned)c.d);
	unsigned wd = model::weekday(days);	/* 0 = Monday */
	u = (int)wd + 1;
	int64_t thursday = days - wd + 3;
	int64_t ty;
	unsigned tm, td;
	model::civil_from_days(thursday, ty, tm, td);
	G = (int)ty;
	int64_t jan1 = model::days_from_civil(ty, 1, 1);
	V = (int)((thursday - jan1) / 7) + 1;
}

/* the value in the given input format, English names; specifiers outside the list come out verbatim */
static inline std::string fmt_value(const std::string &fmt, const Civ &c)
{
	std::string s;
	char b[64];
	int64_t days = model::days_from_civil(c.y, (unsigned)c.m, (unsigned)c.d);
	unsigned wd = model::weekday(days);
	for (size_t i = 0; i < fmt.size(); i++) {
		if (fmt[i] != '%' || i + 1 >= fmt.size()) {
			s += fmt[i];
			continue;
		}
		char f = fmt[++i];
		b[0] = 0;
		switch (f) {
		case 'Y': snprintf(b, sizeof(b), "%04d", c.y); break;
		case 'y': snprintf(b, sizeof(b), "%02d", c.y % 100); break;
		case 'm': snprintf(b, sizeof(b), "%02d", c.m); break;
		case 'd': snprintf(b, sizeof(b), "%02d", c.d); break;
		case 'H': snprintf(b, sizeof(b), "%02d", c.H); break;
		case 'M': snprintf(b, sizeof(b), "%02d", c.M); break;
		case 'S': snprintf(b, sizeof(b), "%02d", c.S); break;
		case 'I': snprintf(b, sizeof(b), "%02d", c.H % 12 ? c.H % 12 : 12); break;
		case 'p': snprintf(b, sizeof(b), "%s", c.H < 12 ? "AM" : "PM"); break;
		case 'F': snprintf(b, sizeof(b), "%04d-%02d-%02d", c.y, c.m, c.d); break;
		case 'T': snprintf(b, sizeof(b), "%02d:%02d:%02d", c.H, c.M, c.S); break;
		case 'j': snprintf(b, sizeof(b), "%03d", (int)(days - model::days_from_civil(c.y, 1, 1)) + 1); break;
		case 'b': snprintf(b, sizeof(b), "%s", en_amon[c.m - 1]); break;
		case 'B': snprintf(b, sizeof(b), "%s", en_lmon[c.m - 1]); break;
		case 'a': snprintf(b, sizeof(b), "%s", en_awd[wd]); break;
		case 'A': snprintf(b, sizeof(b), "%s", en_lwd[wd]); break;
		case 's': snprintf(b, sizeof(b), "%lld", (long long)model::epoch_from_civil(c.y, (unsigned)c.m, (unsigned)c.d, (unsigned)c.H, (unsigned)c.M, (unsigned)c.S)); break;
		case 'G':
		case 'V':
		case 'u': {
			int G, V, u;
			iso_week(c, G, V, u);
			if (f == 'G')
				snprintf(b, sizeof(b), "%04d", G);
			else if (f == 'V')
				snprintf(b, sizeof(b), "%02d", V);
			else
				snprintf(b, sizeof(b), "%d", u);
			break;
		}
		case 'c': snprintf(b, sizeof(b), "%02d", (c.d - 1) / 7 + 1); break;
		case 'w': snprintf(b, sizeof(b), "%02d", wd == 6 ? 0 : (int)wd + 1); break;
		case '%': snprintf(b, sizeof(b), "%%"); break;
		default: snprintf(b, sizeof(b), "%%%c", f); break;
		}
		s += b;
	}
	return s;
}

enum { K_DATE = 0, K_DT = 1, K_TIME = 2 };
struct InFmt {
	const char *fmt;	/* "" = the format-less default parser */
	int kind;
	bool full;		/* determines every field of its kind (no base/now needed) */
	bool sedsafe;		/* has a literal needle or a digit run: tokens embedded in text are found */
};
static const InFmt infmts[] = {
	{"", K_DATE, true, true},
	{"", K_DT, true, true},
	{"%F", K_DATE, true, true},
	{"%d/%m/%Y", K_DATE, true, true},
	{"%d.%m.%Y", K_DATE, true, true},
	{"%Y%m%d", K_DATE, true, true},
	{"%d %b %Y", K_DATE, true, true},
	{"%b %d, %Y", K_DATE, true, true},
	{"%A, %d %B %Y", K_DATE, true, true},
	{"%a %d %b %Y", K_DATE, true, true},
	{"%Y-%j", K_DATE, true, true},
	{"%G-W%V-%u", K_DATE, true, true},
	{"%Y-%m-%c-%w", K_DATE, true, true},
	{"%m/%d/%Y", K_DATE, true, true},
	{"%Y/%m/%d", K_DATE, true, true},
	{"%FT%T", K_DT, true, true},
	{"%F %T", K_DT, true, true},
	{"%d/%m/%Y %H:%M:%S", K_DT, true, true},
	{"%Y%m%dT%H%M%S", K_DT, true, true},
	{"%d %b %Y %H:%M:%S", K_DT, true, true},
	{"%s", K_DT, true, true},
	{"%F %I:%M:%S %p", K_DT, true, true},
	{"%Y%m%d%H%M%S", K_DT, true, true},
	{"%T", K_TIME, true, true},
	{"%H:%M:%S", K_TIME, true, true},
	{"%I:%M:%S %p", K_TIME, true, true},
	/* underspecified: need --base (or the clock) */
	{"%m-%d", K_DATE, false, true},
	{"%d %b", K_DATE, false, true},
	{"%d/%m/%y", K_DATE, false, true},
	{"%Y-%m", K_DATE, false, true},
	{"%d", K_DATE, false, true},
	{"%F %H:%M", K_DT, false, true},
	{"%H:%M", K_TIME, false, true},
	{"%M:%S", K_TIME, false, true},
};
static const size_t n_infmts = sizeof(infmts) / sizeof(*infmts);
static const size_t n_full_infmts = 26;	/* the first entries */

static inline std::string default_value(const Civ &c, int kind, Rng &r)
{
	/* what the format-less parser takes */
	char b[64];
	if (kind == K_TIME) {
		snprintf(b, sizeof(b), "%02d:%02d:%02d", c.H, c.M, c.S);
		return b;
	}
	if (kind == K_DT) {
		snprintf(b, sizeof(b), "%04d-%02d-%02d%c%02d:%02d:%02d", c.y, c.m, c.d, r.chance(1, 5) ? ' ' : 'T', c.H, c.M, c.S);
		return b;
	}
	unsigned k = (unsigned)r.below(10);
	if (k < 7)
		return fmt_value("%F", c);
	if (k < 8)
		return fmt_value("%G-W%V-0%u", c);
	if (k < 9)
		return fmt_value("%Y-%j", c);
	return fmt_value("%Y-%m-%c-%w", c);
}

/* output formats: random sequences over the specifier alphabet */
static inline std::string rand_ofmt(Rng &r, int kind, bool zone)
{
	static const char *dspec[] = {"%F", "%Y", "%m", "%d", "%j", "%b", "%B", "%a", "%A", "%y", "%G", "%V", "%u", "%c", "%w", "%U", "%W", "%C",
				      "%q", "%Q", "%h", "%D", "%g", "%Od", "%Om", "%dth", "%_d", "%-d", "%-m", "%rY", "%G-W%V-%u", "%Y-%m-%c-%w",
				      "%d.%m.%Y", "%d %b %Y", "%A, %B %d %Y"};
	static const char *tspec[] = {"%T", "%H", "%M", "%S", "%I", "%p", "%P", "%N", "%H:%M", "%I:%M %p", "%-H", "%_M"};
	static const char *lits[] = {" ", "-", "/", ":", "T", ", ", ".", "x", " week ", "%%", "%t", "%n", "[", "] ", "on ", "|", "Z", "  ", "#"};
	const size_t nd = sizeof(dspec) / sizeof(*dspec), nt = sizeof(tspec) / sizeof(*tspec), nl = sizeof(lits) / sizeof(*lits);
	std::string f;
	size_t n = (size_t)r.range(1, 6);
	if (r.chance(1, 12))
		n = (size_t)r.range(12, 40);	/* long outputs into the shared buffer */
	for (size_t i = 0; i < n; i++) {
		unsigned k = (unsigned)r.below(100);
		bool wantt = kind == K_TIME ? k < 80 : kind == K_DT ? k < 40 : k < 6;
		if (k >= 94 && kind != K_TIME)
			f += "%s";
		else if (wantt)
			f += tspec[r.below(nt)];
		else
			f += dspec[r.below(nd)];
		if (i + 1 < n || r.chance(1, 4))
			f += lits[r.below(nl)];
	}
	if (zone && r.chance(2, 3))
		f += "%Z";
	return f;
}
static const char *const special_ofmts[] = {"ymd", "ymcw", "ywd", "yd", "bizda", "lilian", "ldn", "julian", "jdn", "matlab", "mdn", "daisy"};

static const char *const inv_zones[] = {"Europe/Berlin", "America/New_York", "Asia/Gaza", "Australia/Lord_Howe", "Asia/Tokyo", "Asia/Kathmandu",
					"Africa/Casablanca", "America/St_Johns", "Pacific/Apia", "UTC", "EST", "EST5EDT", "MST", "MST7MDT", "NZ",
					"NZ-CHAT", "Etc/GMT-1", "Etc/GMT-10", "Etc/GMT-14", "GMT", "GMT0", "Europe/Dublin", "America/Sao_Paulo",
					"Asia/Tehran", "Antarctica/Troll", "Pacific/Kiritimati", "America/Caracas", "Europe/Moscow"};
static const size_t n_inv_zones = sizeof(inv_zones) / sizeof(*inv_zones);

static const char *const durs_date[] = {"+1d", "-1d", "+1mo", "-1mo", "+1y", "-1y", "+3w", "-2w", "+2d", "+100d", "+5bd", "+2bd", "+1mo1d", "-1y2mo",
					"+0d", "+12mo", "+7d", "-30d", "+1w1d", "+400d", "+4y", "-11mo"};
static const char *const durs_time[] = {"+1h", "-1h", "+12h", "-90m", "+3600s", "+86400s", "+36h", "-1s", "+59m", "+1h30m", "+25h", "-1440m"};
static const char *const rnd_date[] = {"Mon", "Tue", "Sat", "Sun", "-Fri", "1", "15", "31", "-1", "-31", "Feb", "Dec", "-Jan", "1d", "Jul", "28"};
static const char *const rnd_time[] = {"1h", "30m", "15m", "1m", "10s", "-1h", "-30m", "12h", "6h", "/1h", "/-1h", "2h"};
static const char *const ddiff_ofmts_date[] = {"%d", "%m mo %d d", "%w w %d d", "%y y %m mo", "%y-%m-%d", "%b", "%dd", "%w", "%m"};
static const char *const ddiff_ofmts_dt[] = {"%S", "%dd %Hh %Mm %Ss", "%H:%M:%S", "%d %H", "%M", "%w w %d d %H h", "%rS", "%T", "%m mo %d d %S s"};

struct Inv {
	std::string tool;
	std::vector<std::string> fixed;	/* argv without the tool name and without the values */
	int mode = 0;			/* 0 values are arguments, 1 stdin lines, 2 stdin text lines in sed mode */
	int kind = K_DATE;
	std::vector<size_t> ifs;	/* indices into infmts; empty = default parser */
	bool full = true;		/* every value determines all fields */
	bool has_base = false;
	bool zone = false;
	bool textlines = false;		/* values are embedded in text (dgrep, sed mode) */
	std::vector<std::string> zones;	/* zone names used (to embed their files) */
	bool dzone = false;
};

/* one value in the invocation's input vocabulary */
static inline std::string inv_value(Rng &r, const Inv &iv)
{
	Civ c = rand_civ(r);
	unsigned k = (unsigned)r.below(100);
	if (k < 4)
		c.y = 1800, c.m = 1, c.d = 1;		/* before the first transition of every zone */
	else if (k < 8)
		c.y = (int)r.range(2040, 2086);		/* transition index above 255 in Asia/Gaza */
	else if (k < 10)
		c.y = 1969, c.m = 7, c.d = 20;
	if (k >= 96) {
		static const char *junk[] = {"foo", "", "2012-13-45", "99", "2012-02-30", "24:00:00", "T", "2012-01-01T", "0000-00-00", " ", "1e9", "31/02/2012", "Feb 30, 2012"};
		return junk[r.below(sizeof(junk) / sizeof(*junk))];
	}
	if (iv.ifs.empty())
		return default_value(c, iv.kind, r);
	const InFmt &f = infmts[iv.ifs[r.below(iv.ifs.size())]];
	if (!*f.fmt)
		return default_value(c, f.kind, r);
	if (strcmp(f.fmt, "%s") == 0 && c.y < 1970)
		c.y += 100;
	return fmt_value(f.fmt, c);
}

static inline std::string text_around(Rng &r, const std::string &v)
{
	static const char *pre[] = {"", "x ", "log: ", "[", "at ", "-- ", "\t", "(", "a b c "};
	static const char *post[] = {"", " y", "]", " end", ";", ")", "\t", " -- z", " ,"};
	return std::string(pre[r.below(9)]) + v + post[r.below(9)];
}

/* draw an invocation; TOOLS restricts the tool (NULL: any line-independent one);
 * want_full: only inputs that determine every field, or --base (C20) */
static inline Inv rand_inv(Rng &r, const char *only_tool, bool want_full, bool allow_sed)
{
	Inv iv;
	static const char *tools[] = {"dconv", "dconv", "dadd", "dround", "ddiff", "dgrep"};
	iv.tool = only_tool ? only_tool : tools[r.below(6)];
	const std::string &t = iv.tool;
	/* kind and input formats */
	unsigned kk = (unsigned)r.below(100);
	iv.kind = kk < 45 ? K_DATE : kk < 92 ? K_DT : K_TIME;
	size_t nif = r.chance(2, 5) ? 0 : (size_t)r.range(1, 3);
	bool under = !want_full ? r.chance(1, 8) : r.chance(1, 5);
	for (size_t i = 0; i < nif; i++) {
		for (int tries = 0; tries < 40; tries++) {
			size_t x = under ? n_full_infmts + r.below(n_infmts - n_full_infmts) : r.below(n_full_infmts);
			if (infmts[x].kind != iv.kind && !(tries > 20))
				continue;
			if (!*infmts[x].fmt)
				continue;
			/* dadd and dround take their first operand for a date if it parses as one: a bare number
			 * format would swallow the duration or rounding target and the tool would not read stdin */
			if ((t == "dadd" || t == "dround") && (!strcmp(infmts[x].fmt, "%s") || !strcmp(infmts[x].fmt, "%d")))
				continue;
			iv.ifs.push_back(x);
			if (!infmts[x].full)
				iv.full = false;
			break;
		}
	}
	if (!iv.ifs.empty())
		iv.kind = infmts[iv.ifs[0]].kind;
	for (size_t x : iv.ifs) {
		iv.fixed.push_back("-i");
		iv.fixed.push_back(infmts[x].fmt);
	}
	/* a bare time needs a date from somewhere as soon as zones or epoch output come in */
	bool timeonly = iv.kind == K_TIME;
	if (!iv.full || (want_full && timeonly && r.chance(1, 2))) {
		Civ b = rand_civ(r);
		iv.fixed.push_back("--base");
		iv.fixed.push_back(r.chance(1, 2) ? fmt_value("%F", b) : fmt_value("%FT%T", b));
		iv.has_base = true;
	}
	/* zones */
	bool canzone = t != "ddiff" && t != "dgrep";
	unsigned zk = (unsigned)r.below(100);
	if ((!timeonly || iv.has_base || !want_full) && zk < 40) {
		const char *z1 = inv_zones[r.below(n_inv_zones)], *z2 = inv_zones[r.below(n_inv_zones)];
		if (zk < 18 && canzone) {
			iv.fixed.push_back(r.chance(1, 2) ? "--zone" : "-z");
			iv.fixed.push_back(z1);
			iv.zones.push_back(z1);
			iv.zone = true;
		} else if (zk < 30) {
			iv.fixed.push_back("--from-zone");
			iv.fixed.push_back(z1);
			iv.zones.push_back(z1);
		} else if (canzone) {
			iv.fixed.push_back("--from-zone");
			iv.fixed.push_back(z1);
			iv.fixed.push_back("--zone");
			iv.fixed.push_back(z2);
			iv.zones.push_back(z1);
			iv.zones.push_back(z2);
			iv.zone = true;
		}
	}
	/* output format */
	bool has_f = t != "dgrep";
	if (has_f && t != "ddiff") {
		unsigned fk = (unsigned)r.below(100);
		if (fk < 60) {
			iv.fixed.push_back(r.chance(1, 2) ? "-f" : "--format");
			std::string of = rand_ofmt(r, iv.kind, iv.zone);
			/* epoch or zone output of a bare time borrows the date: only with --base */
			if (timeonly && !iv.has_base && want_full) {
				size_t q;
				while ((q = of.find("%s")) != std::string::npos)
					of.replace(q, 2, "%S");
			}
			iv.fixed.push_back(of);
		} else if (fk < 68 && iv.kind != K_TIME) {
			iv.fixed.push_back("-f");
			iv.fixed.push_back(special_ofmts[r.below(sizeof(special_ofmts) / sizeof(*special_ofmts))]);
		}
	}
	if (r.chance(1, 6))
		iv.fixed.push_back("-q");
	if (r.chance(1, 8) && t != "dzone")
		iv.fixed.push_back("-e");
	/* tool specific fixed operands and the mode */
	unsigned mk = (unsigned)r.below(100);
	if (t == "dconv") {
		iv.mode = mk < 35 ? 0 : mk < 75 || !allow_sed ? 1 : 2;
	} else if (t == "dadd") {
		size_t nd = (size_t)r.range(1, 3);
		for (size_t i = 0; i < nd; i++) {
			bool td = iv.kind == K_TIME || (iv.kind == K_DT && r.chance(1, 2));
			iv.fixed.push_back(td ? durs_time[r.below(sizeof(durs_time) / sizeof(*durs_time))] : durs_date[r.below(sizeof(durs_date) / sizeof(*durs_date))]);
		}
		iv.mode = mk < 65 || !allow_sed ? 1 : 2;
	} else if (t == "dround") {
		if (r.chance(1, 5))
			iv.fixed.push_back(r.chance(1, 2) ? "-n" : "--next");
		size_t nd = (size_t)r.range(1, 3);
		bool dashed = false;
		std::vector<std::string> specs;
		for (size_t i = 0; i < nd; i++) {
			bool td = iv.kind == K_TIME || (iv.kind == K_DT && r.chance(1, 2));
			std::string s = td ? rnd_time[r.below(sizeof(rnd_time) / sizeof(*rnd_time))] : rnd_date[r.below(sizeof(rnd_date) / sizeof(*rnd_date))];
			if (s[0] == '-')
				dashed = true;
			specs.push_back(s);
		}
		iv.mode = mk < 65 || !allow_sed ? 1 : 2;
		if (iv.mode == 2)
			iv.fixed.push_back("-S");
		if (dashed)
			iv.fixed.push_back("--");
		for (auto &s : specs)
			iv.fixed.push_back(s);
		if (iv.mode == 2)
			iv.textlines = true;
		return iv;
	} else if (t == "ddiff") {
		if (r.chance(3, 4)) {
			iv.fixed.push_back("-f");
			iv.fixed.push_back(iv.kind == K_DATE ? ddiff_ofmts_date[r.below(sizeof(ddiff_ofmts_date) / sizeof(*ddiff_ofmts_date))]
							      : ddiff_ofmts_dt[r.below(sizeof(ddiff_ofmts_dt) / sizeof(*ddiff_ofmts_dt))]);
		}
		iv.fixed.push_back(inv_value(r, iv));	/* the reference */
		iv.mode = mk < 50 ? 0 : 1;
	} else if (t == "dgrep") {
		static const char *ops[] = {"<", "<=", ">", ">=", "=", "!=", "<>"};
		if (r.chance(1, 4))
			iv.fixed.push_back("-o");
		if (r.chance(1, 4))
			iv.fixed.push_back("-v");
		Inv plain = iv;
		std::string e;
		if (r.chance(1, 4)) {
			static const char *lops[] = {"--lt", "--le", "--gt", "--ge", "--eq", "--ne", "--ot", "--nt"};
			iv.fixed.push_back(lops[r.below(8)]);
			std::string v = inv_value(r, plain);
			iv.fixed.push_back(v.empty() || v[0] == '-' ? "2012-03-04" : v);
		} else {
			size_t nt = (size_t)r.range(1, 3);
			for (size_t i = 0; i < nt; i++) {
				std::string v = inv_value(r, plain);
				if (v.empty() || v.find_first_of("&|()!") != std::string::npos)
					v = fmt_value("%F", rand_civ(r));
				if (i)
					e += r.chance(1, 2) ? " && " : " || ";
				if (r.chance(1, 8))
					e += "!";
				e += std::string(ops[r.below(7)]) + v;
			}
			iv.fixed.push_back(e);
		}
		iv.mode = 1;
		iv.textlines = true;
	}
	if (iv.mode == 2) {
		iv.fixed.insert(iv.fixed.begin(), "-S");
		if (r.chance(1, 6))
			iv.fixed.insert(iv.fixed.begin() + 1, "-E");
		iv.textlines = true;
	}
	return iv;
}

static inline std::vector<std::string> inv_argv(const Inv &iv)
{
	std::vector<std::string> a{iv.tool};
	a.insert(a.end(), iv.fixed.begin(), iv.fixed.end());
	return a;
}

} /* namespace inv */
} /* namespace sim */
