/* sim.h -- deterministic simulation core for dateutils: plans, shared state, seams
 *
 * One Plan describes one incarnation completely (argv, env, clock, files,
 * stdin bytes, delivery schedule, faults).  Executing a plan draws nothing from
 * any PRNG: the plan text is the replay file. */
#pragma once
#include <stdint.h>
#include <stddef.h>
#include <string>
#include <vector>
#include <map>
#include <functional>

namespace sim {

/* ---------- PRNG: splitmix64 seeding xoshiro256** ---------- */
struct Rng {
	uint64_t s[4];
	static uint64_t splitmix(uint64_t &x) {
		uint64_t z = (x += 0x9e3779b97f4a7c15ULL);
		z = (z ^ (z >> 30)) * 0xbf58476d1ce4e5b9ULL;
		z = (z ^ (z >> 27)) * 0x94d049bb133111ebULL;
		return z ^ (z >> 31);
	}
	explicit Rng(uint64_t seed = 1) { reseed(seed); }
	void reseed(uint64_t seed) { for (auto &w : s) w = splitmix(seed); }
	static inline uint64_t rotl(uint64_t x, int k) { return (x << k) | (x >> (64 - k)); }
	uint64_t next() {
		const uint64_t r = rotl(s[1] * 5, 7) * 9, t = s[1] << 17;
		s[2] ^= s[0]; s[3] ^= s[1]; s[1] ^= s[2]; s[0] ^= s[3];
		s[2] ^= t; s[3] = rotl(s[3], 45);
		return r;
	}
	/* uniform in [0,n) */
	uint64_t below(uint64_t n) { return n ? next() % n : 0; }
	int64_t range(int64_t lo, int64_t hi) { return lo + (int64_t)below((uint64_t)(hi - lo + 1)); }
	bool chance(unsigned num, unsigned den) { return below(den) < num; }
	template <class T> const T &pick(const std::vector<T> &v) { return v[below(v.size())]; }
};
uint64_t hash_mix(uint64_t h, uint64_t v);
uint64_t hash_bytes(uint64_t h, const void *p, size_t n);
uint64_t hash_str(uint64_t h, const std::string &s);
uint64_t run_seed(uint64_t seed, const std::string &engine, uint64_t idx);

/* ---------- plan ---------- */
struct Op {
	std::string kind;          /* engine/seam specific */
	std::vector<int64_t> a;    /* integer arguments */
	std::string s;             /* byte-string argument */
	int64_t arg(size_t i, int64_t dflt = 0) const { return i < a.size() ? a[i] : dflt; }
};
struct SimFile {
	std::string path;
	std::string data;
	bool absent = false;       /* path exists in plan but open() gives ENOENT */
};
struct Clock {
	int64_t start = 1000000000;   /* seconds */
	int64_t usec = 0;
	int64_t step_us = 0;          /* advance per clock read */
	int fail = 0;                 /* gettimeofday()/time() return -1 */
	/* jumps[i] = (call index, new absolute second) */
	std::vector<std::pair<int64_t, int64_t>> jumps;
	/* add this many seconds after every stream read() (history engine) */
	int64_t per_read_s = 0;
};
struct Plan {
	std::string engine;
	std::string variant = "asan";
	std::string cls;                       /* violation class this plan is a replay for (informational) */
	std::vector<std::string> argv;         /* tool incarnation; argv[0] selects the main */
	std::map<std::string, std::string> env;
	Clock clock;
	std::vector<SimFile> files;
	std::string input;                     /* stdin byte stream */
	bool has_input = false;
	std::vector<Op> sched;                 /* delivery schedule: one op per read(), cyclic */
	std::vector<Op> ops;                   /* engine specific operation / fault sequence */
	std::map<std::string, std::string> par;/* engine specific scalars */
	std::string text() const;
	static bool parse(const std::string &txt, Plan &out, std::string &err);
	uint64_t hash() const;
	int64_t ipar(const char *k, int64_t d = 0) const;
};
std::string hexenc(const std::string &s);
std::string hexdec(const std::string &s);
std::string cquote(const std::string &s, size_t max = 120);

/* ---------- state shared between the driver side and an incarnation ---------- */
enum Probe {
	P_READS, P_READ_1BYTE, P_READ_SPLIT_LINE, P_READ_CRLF_SPLIT, P_READ_EOF, P_READ_AFTER_EOF,
	P_READ_ERR, P_READ_OUTSIDE, P_ANON_MMAP, P_FILE_MMAP, P_OPEN, P_OPEN_ENOENT, P_OPEN_FAULT,
	P_FSTAT_FAULT, P_MMAP_FAULT, P_MALLOC_FAULT, P_CLOCK_READS, P_CLOCK_JUMP, P_CLOCK_FAIL,
	P_GETENV, P_LIBC_TIME, P_LIBC_LOCALE, P_WRITE_SHORT, P_WRITE_FAULT, P_PIPE_FULL, P_VFORK,
	P_EXEC, P_WAITPID, P_SCHED_STEP, P_UNLINK, P_PASSTHRU_OPEN, P_STAT, P_FOPEN, P_GUARD_SEGV,
	P_REFILL, P_NPROBE_
};
extern const char *const probe_names[];

enum Flag : uint32_t {
	F_READ_OUTSIDE = 1u << 0,      /* read() target range leaves the mapping it starts in */
	F_STEP_BUDGET = 1u << 1,       /* seam-call budget exhausted (bounded liveness) */
	F_DEADLOCK = 1u << 2,          /* process simulator: nothing runnable */
	F_FD_MISUSE = 1u << 3,         /* close of a closed fd, write to read end, ... */
	F_UNSIM = 1u << 4,             /* code used a facility the simulator does not model */
	F_LEFTOVER_FILE = 1u << 5,
};

struct Shared {
	uint64_t nevents;
	uint64_t loghash;
	uint32_t flags;
	char note[512];
	uint64_t probes[64];
	int64_t cur_op;                /* op index in progress (library level sequences) */
	int64_t nres;
	int64_t done;                  /* body returned */
	uint32_t trace_len;
	uint32_t trace_trunc;
	char trace[1 << 16];
	int64_t res[1 << 16][4];       /* per-op results of library level sequences */
	char blob[1 << 20];            /* free-form output of library level bodies */
	uint32_t blob_len;
};
Shared *shared();

/* event log: never draws randomness, never reads a clock */
void ev(const char *fmt, ...) __attribute__((format(printf, 1, 2)));
void probe(Probe p, uint64_t n = 1);
void flag(uint32_t f, const char *fmt, ...) __attribute__((format(printf, 2, 3)));
void blob_append(const std::string &s);

/* ---------- running an incarnation ---------- */
struct RunResult {
	int exit_code = -1;            /* >= 0: exit status */
	int signal = 0;                /* != 0: terminated by signal */
	bool hang = false;             /* CPU budget exhausted */
	bool asan = false;             /* sanitizer report (exit 77) */
	std::string out, err;
	uint64_t nevents = 0, loghash = 0;
	uint32_t flags = 0;
	std::string note;
	std::string trace;
	uint64_t probes[64] = {0};
	int64_t cur_op = -1, nres = 0;
	bool done = false;
	std::vector<std::array<int64_t, 4>> res;
	std::string blob;
	uint64_t hash() const;         /* stdout + status + event log */
	bool crashed() const { return signal != 0 || asan || hang; }
	std::string status_str() const;
};
struct Limits {
	double cpu_s = 2.0;
	uint64_t max_events = 4000000;
	size_t max_out = 256u << 20;
};
/* fork, install PLAN into the seams, run BODY (default: the tool main named by argv[0]) */
RunResult run_plan(const Plan &p, const Limits &lim = Limits(),
		   std::function<int()> body = nullptr);
int call_tool_main(const std::vector<std::string> &argv);
bool have_tool(const std::string &name);

/* seam state installation (child side) */
void install_plan(const Plan &p, const Limits &lim);

/* passthrough import of a real file into the simulated fs (child and parent side) */
bool real_file_bytes(const std::string &path, std::string &out);

} /* namespace sim */
