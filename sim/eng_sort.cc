/* eng_sort.cc -- C08, the datesort clause: a three-process pipeline over simulated pipes
 *
 * dsort's main runs as a forked incarnation; pipe/vfork/dup2/close/execvp/write/waitpid go to the process
 * simulator in shim.cc: virtual processes with their own descriptor tables, pipes with a seeded capacity,
 * stub sort(1) (C locale, -t^A -k2 [-r], last-resort whole-line comparison) and cut(1) (-d^A -f1) stepped
 * by a scheduler whose every choice (who runs, how many bytes move) comes from the plan.
 * The order laws of the comparison functions are pure and only cross-checked here (dtest on adjacent lines). */
#include "engine.h"
#include "models.h"
#include <string.h>
#include <algorithm>

#ifndef SIM_NL
# define SIM_NL 16384
#endif

namespace sim {
namespace {

enum { RD_MAX = 0, RD_NL = 1, RD_NL1 = 2, RD_CR = 3, RD_ALL = 4 };

struct Key {
	bool dated = false;
	int kind = 0;		/* 1 date, 2 date-time, 3 time */
	int64_t v = 0;
	bool ymcw = false;
	std::string raw;	/* the token as written, for dtest */
};
bool isdig(char c) { return c >= '0' && c <= '9'; }

/* first token of the line that is YYYY-MM-DD[THH:MM:SS] or HH:MM:SS, bounded by blanks; what the generator writes */
Key line_key(const std::string &l)
{
	Key k;
	size_t n = l.size();
	for (size_t i = 0; i < n; i++) {
		if (!isdig(l[i]) || (i > 0 && l[i - 1] != ' '))
			continue;
		if (i + 13 <= n && l[i + 4] == '-' && l[i + 7] == '-' && l[i + 10] == '-' && isdig(l[i + 11]) && isdig(l[i + 12]) &&
		    (i + 13 == n || l[i + 13] == ' ')) {
			/* year-month-count-weekday: the c-th w-day (1 = Monday .. 7 = Sunday) of the month */
			int y = atoi(l.substr(i, 4).c_str()), m = atoi(l.substr(i + 5, 2).c_str()), c = atoi(l.substr(i + 8, 2).c_str()), w = atoi(l.substr(i + 11, 2).c_str());
			if (m < 1 || m > 12 || c < 1 || c > 4 || w < 1 || w > 7)
				return Key();
			int64_t first = model::days_from_civil(y, (unsigned)m, 1);
			unsigned wd1 = model::weekday(first);	/* 0 = Monday */
			int64_t day = first + ((unsigned)(w - 1) + 7 - wd1) % 7 + 7 * (c - 1);
			k.dated = true;
			k.kind = 0;	/* own class, see kinds[] */
			k.ymcw = true;
			k.v = day * 86400;
			k.raw = l.substr(i, 13);
			return k;
		}
		if (i + 10 <= n && l[i + 4] == '-' && l[i + 7] == '-') {
			bool ok = true;
			for (int j : {0, 1, 2, 3, 5, 6, 8, 9})
				ok = ok && isdig(l[i + j]);
			if (!ok)
				continue;
			int y = atoi(l.substr(i, 4).c_str()), m = atoi(l.substr(i + 5, 2).c_str()), d = atoi(l.substr(i + 8, 2).c_str());
			if (m < 1 || m > 12 || d < 1 || d > (int)model::mdays(y, m))
				return Key();
			k.dated = true;
			k.kind = 1;
			k.v = model::days_from_civil(y, (unsigned)m, (unsigned)d) * 86400;
			k.raw = l.substr(i, 10);
			if (i + 17 <= n && l[i + 10] == 'T' && l[i + 13] == ':' && l[i + 16] == ':' && (i + 17 == n || !isdig(l[i + 17]))) {
				/* hours and minutes, then a colon that introduces no seconds: the colon is not the value's */
				k.kind = 2;
				k.v += atoi(l.substr(i + 11, 2).c_str()) * 3600 + atoi(l.substr(i + 14, 2).c_str()) * 60;
				k.raw = l.substr(i, 16);
				return k;
			}
			if (i + 19 <= n && l[i + 10] == 'T' && l[i + 13] == ':' && l[i + 16] == ':') {
				k.kind = 2;
				k.v += atoi(l.substr(i + 11, 2).c_str()) * 3600 + atoi(l.substr(i + 14, 2).c_str()) * 60 + atoi(l.substr(i + 17, 2).c_str());
				k.raw = l.substr(i, 19);
				/* a UTC offset belongs to the value: the instant is what is compared */
				if (i + 19 < n && l[i + 19] == 'Z') {
					k.raw = l.substr(i, 20);
				} else if (i + 25 <= n && (l[i + 19] == '+' || l[i + 19] == '-') && l[i + 22] == ':') {
					int off = atoi(l.substr(i + 20, 2).c_str()) * 3600 + atoi(l.substr(i + 23, 2).c_str()) * 60;
					k.v -= l[i + 19] == '-' ? -off : off;
					k.raw = l.substr(i, 25);
				}
			}
			return k;
		}
		{
			/* -i %s: a run of 9 to 11 digits */
			size_t e = i;
			while (e < n && isdig(l[e]))
				e++;
			if (e - i >= 9 && e - i <= 11 && (e == n || l[e] == ' ')) {
				k.dated = true;
				k.kind = 2;
				k.v = atoll(l.substr(i, e - i).c_str());
				k.raw = l.substr(i, e - i);
				return k;
			}
		}
		if (i + 8 <= n && (i + 8 == n || l[i + 8] == ' ') && std::all_of(l.begin() + i, l.begin() + i + 8, isdig)) {
			/* -i %Y%m%d */
			int y = atoi(l.substr(i, 4).c_str()), m = atoi(l.substr(i + 4, 2).c_str()), d = atoi(l.substr(i + 6, 2).c_str());
			if (m < 1 || m > 12 || d < 1 || d > (int)model::mdays(y, m))
				return Key();
			k.dated = true;
			k.kind = 1;
			k.v = model::days_from_civil(y, (unsigned)m, (unsigned)d) * 86400;
			k.raw = l.substr(i, 8);
			return k;
		}
		if (i + 10 <= n && l[i + 2] == '/' && l[i + 5] == '/' && (i + 10 == n || l[i + 10] == ' ')) {
			/* -i %d/%m/%Y */
			int d = atoi(l.substr(i, 2).c_str()), m = atoi(l.substr(i + 3, 2).c_str()), y = atoi(l.substr(i + 6, 4).c_str());
			if (m < 1 || m > 12 || d < 1 || d > (int)model::mdays(y, m))
				return Key();
			k.dated = true;
			k.kind = 1;
			k.v = model::days_from_civil(y, (unsigned)m, (unsigned)d) * 86400;
			k.raw = l.substr(i, 10);
			return k;
		}
		if (i + 8 <= n && l[i + 2] == ':' && l[i + 5] == ':' && isdig(l[i + 1]) && isdig(l[i + 3]) && isdig(l[i + 4]) && isdig(l[i + 6]) && isdig(l[i + 7])) {
			k.dated = true;
			k.kind = 3;
			k.v = atoi(l.substr(i, 2).c_str()) * 3600 + atoi(l.substr(i + 3, 2).c_str()) * 60 + atoi(l.substr(i + 6, 2).c_str());
			k.raw = l.substr(i, 8);
			return k;
		}
		return Key();
	}
	return k;
}

std::vector<std::string> content_lines(const std::string &in)
{
	std::vector<std::string> v;
	size_t a = 0;
	while (a < in.size()) {
		size_t e = in.find('\n', a);
		std::string l = in.substr(a, e == std::string::npos ? std::string::npos : e - a);
		if (e != std::string::npos && !l.empty() && l.back() == '\r')
			l.pop_back();
		v.push_back(l);
		if (e == std::string::npos)
			break;
		a = e + 1;
	}
	return v;
}

struct SortEngine : Engine {
	std::map<std::string, int> dtest_memo;
	const char *name() const override { return "sort"; }
	const char *property() const override { return "C08"; }

	static std::string lit(Rng &r, size_t n)
	{
		static const char al[] = "abcdefghijklmnopqrstuvwxyzABCXYZ_,;()!?#*=&%$@~\"'<>|[]{}/\\\t";
		std::string s;
		for (size_t i = 0; i < n; i++) {
			unsigned k = (unsigned)r.below(40);
			s += k == 0 ? (char)(0x80 + r.below(0x7f)) : al[r.below(sizeof(al) - 1)];
		}
		return s;
	}

	Plan generate(Rng &r, uint64_t idx, const Config &cfg) override
	{
		(void)idx;
		Plan p;
		p.argv = {"dsort"};
		/* -r reverses however often and in whatever spelling it is given */
		bool rev = r.chance(1, 3);
		if (rev) {
			unsigned sp = (unsigned)r.below(10);
			if (sp < 6)
				p.argv.push_back("-r");
			else if (sp < 7)
				p.argv.push_back("--reverse");
			else if (sp < 8)
				p.argv.insert(p.argv.end(), {"-r", "-r"});
			else if (sp < 9)
				p.argv.push_back("-rr");
			else
				p.argv.insert(p.argv.end(), {"--reverse", "-r", "-r"});
		}
		int kind = (int)r.range(1, 4);	/* 4 = mixed */
		bool ymcw = r.chance(1, 8);	/* month-count-weekday dates: the encoding is not monotone, comparison has its own code */
		if (ymcw) {
			kind = 5;
			p.argv.push_back("-i");
			p.argv.push_back("%Y-%m-%c-%w");
			p.par["ymcw"] = "1";
		}
		/* input formats: one real format among 0..39 others; the needle table is sized from their number */
		int ifk = 0;	/* 0 default parser, 1 %Y%m%d, 2 %d/%m/%Y */
		if (!ymcw && r.chance(1, 5)) {
			ifk = (int)r.range(1, 3);	/* 3: epoch seconds, around the 32-bit limits */
			kind = ifk == 3 ? 2 : 1;
			static const char *filler[] = {"q%Yq%mq%d", "%Y_%m_%d", "%d~%m~%Y", "<%F>", "#%j#%Y", "%Y:%m:%d", "%d|%m|%Y", "%m;%d;%Y", "%Y=%j", "%Yx%mx%d",
						       "%b/%d/%Y", "%B %Y %d", "%G w%V %u", "%Y+%m+%d", "%d^%m^%Y", "{%F}", "%Y %d %b", "%d*%m*%Y", "%Y&%j", "%m'%d'%Y"};
			static const size_t counts[] = {1, 1, 2, 3, 7, 8, 9, 15, 16, 17, 23, 24, 25, 31, 32, 33, 40};
			size_t want = counts[r.below(sizeof(counts) / sizeof(*counts))];
			size_t at = r.below(want);
			for (size_t k2 = 0, f = 0; k2 < want; k2++) {
				p.argv.push_back("-i");
				if (k2 == at)
					p.argv.push_back(ifk == 1 ? "%Y%m%d" : ifk == 2 ? "%d/%m/%Y" : "%s");
				else {
					p.argv.push_back(std::string(filler[f % 20]) + (f >= 20 ? "z" : ""));
					f++;
				}
			}
			p.par["ifmt"] = ifk == 1 ? "%Y%m%d" : ifk == 2 ? "%d/%m/%Y" : "%s";
			p.par["nifmt"] = std::to_string(want);
		}
		/* mostly tiny lines: several complete lines fit into one read() behind the line that fills the window */
		bool tiny = r.chance(1, SIM_NL <= 64 ? 4 : 12);
		if (!ymcw && ifk == 0 && kind == 2 && r.chance(1, 4)) {	/* date-times only: a bare time under a zone wraps around midnight */
			static const char *fz[] = {"+05:30", "+11:00", "+01:00", "+12:45", "+00:30"};
			const char *z = fz[r.below(5)];
			p.argv.push_back("--from-zone");
			p.argv.push_back(z);
			p.par["fromz"] = z;
		}
		size_t n;
		unsigned vk = (unsigned)r.below(100);
		if (tiny)
			n = SIM_NL <= 64 ? (size_t)r.range(SIM_NL - 1, 3 * SIM_NL + 2) : (size_t)r.range(2, 40);
		else if (vk < 60)
			n = (size_t)r.range(0, 12);
		else if (vk < 90)
			n = (size_t)r.range(13, 80);
		else
			n = SIM_NL <= 64 ? (size_t)r.range(SIM_NL, 5 * SIM_NL) : (size_t)r.range(200, cfg.tier == "thorough" ? 3000 : 900);
		/* values from a small range so that ties and neighbours abound */
		int y0 = (int)r.range(1850, 2080);
		if (r.chance(1, 8)) {
			/* century years and the ends of the supported range: leap rules, weekday tables */
			static const int ys[] = {1900, 1900, 1899, 2000, 2100, 1700, 1800, 1601, 2400, 4093, 1999, 2099};
			y0 = ys[r.below(12)];
		}
		std::string in;
		std::vector<std::string> pool;
		for (size_t i = 0; i < n; i++) {
			std::string l;
			if (!pool.empty() && r.chance(1, 8)) {
				l = pool[r.below(pool.size())];	/* duplicate line */
			} else {
				if (tiny && r.chance(3, 4)) {
					l = lit(r, (size_t)r.below(3));
					in += l;
					if (i + 1 == n && r.chance(1, 3))
						break;
					in += "\n";
					continue;
				}
				if (r.chance(2, 3))
					l = lit(r, (size_t)r.below(12)) + " ";
				int k = kind == 4 ? (int)r.range(1, 3) : kind;
				int y = y0 + (int)r.below(3), m = (int)r.range(1, 12), d = (int)r.range(1, model::mdays(y, m));
				char b[48];
				if (r.chance(1, 10))
					b[0] = 0;	/* no date on this line */
				else if (k == 5)
					snprintf(b, sizeof(b), "%04d-%02d-%02d-%02d", y0, 1 + (int)r.below(2), (int)r.range(1, 4), (int)r.range(1, 7));
				else if (ifk == 3) {
					static const int64_t centre[] = {2147483648LL, 2147483648LL, 4294967296LL, 1000000000LL, 946684800LL, 253402300799LL / 64};
					snprintf(b, sizeof(b), "%lld", (long long)(centre[r.below(6)] + r.range(-90, 90)));
				} else if (k == 1 && ifk == 1)
					snprintf(b, sizeof(b), "%04d%02d%02d", y, m, d);
				else if (k == 1 && ifk == 2)
					snprintf(b, sizeof(b), "%02d/%02d/%04d", d, m, y);
				else if (k == 1)
					snprintf(b, sizeof(b), "%04d-%02d-%02d", y, m, d);
				else if (k == 2) {
					/* now and then with a UTC offset: the same day, instants an hour or less apart */
					static const char *offs[] = {"Z", "+00:00", "+01:00", "-05:00", "+05:30", "-03:30", "+12:45", "-09:30", "+02:00", "-00:30", "+00:45", "-02:30"};
					int dd = r.chance(1, 2) ? 1 : d;
					snprintf(b, sizeof(b), "%04d-%02d-%02dT%02d:%02d:%02d%s", y, m, dd, (int)r.below(24), (int)r.below(60), (int)r.below(60),
						 !p.par.count("fromz") && r.chance(1, 3) ? offs[r.below(sizeof(offs) / sizeof(*offs))] : "");
				}
				else
					snprintf(b, sizeof(b), "%02d:%02d:%02d", (int)r.below(24), (int)r.below(60), (int)r.below(60));
				l += b;
				if (r.chance(1, 2))
					l += " " + lit(r, (size_t)r.below(20));
				if (SIM_NL <= 64 && r.chance(1, 12)) {
					/* longer than the reader window: the window grows while the line is read */
					std::string pad = lit(r, (size_t)r.range(60, 400));
					if (r.chance(1, 2))
						l += " " + pad;
					else
						l = pad + " " + l;
				}
				if (pool.size() < 16)
					pool.push_back(l);
				/* a stamp at the start of the line, and right behind it lines whose stamps extend it textually */
				if (!ymcw && ifk == 0 && (k == 1 || k == 2) && i + 3 < n && r.chance(1, 10)) {
					char d10[16], e1[48], e2[48], e3[48];
					snprintf(d10, sizeof(d10), "%04d-%02d-%02d", y, m, d);
					int H = (int)r.range(1, 22), M = (int)r.range(1, 58);
					snprintf(e1, sizeof(e1), "%sT%02d:%02d:%02d", d10, H, M, (int)r.range(20, 59));
					snprintf(e2, sizeof(e2), "%sT%02d:%02d:%02d", d10, H, M, (int)r.range(0, 19));
					snprintf(e3, sizeof(e3), "%sT%02d:%02d:%02d", d10, H - 1, M, (int)r.below(60));
					std::string tail = r.chance(1, 2) ? " " + lit(r, (size_t)r.below(6)) : "";
					in += std::string(d10) + tail + "\n" + e1 + tail + "\n" + e3 + "\n" + e2 + "\n";
					i += 3;
					continue;
				}
				/* hours and minutes followed by a colon that introduces no seconds */
				if (!ymcw && ifk == 0 && k == 2 && r.chance(1, 12)) {
					size_t tpos = l.find('T');
					if (tpos != std::string::npos && tpos + 9 <= l.size() && l[tpos + 6] == ':') {
						std::string cut = l.substr(0, tpos + 7);	/* ...THH:MM: */
						static const char *after[] = {"", " up", "xx", " ", "?"};
						l = cut + after[r.below(5)];
					}
				}
			}
			in += l;
			bool last = i + 1 == n;
			if (last && r.chance(1, 4))
				break;
			in += r.chance(1, 8) ? "\r\n" : "\n";
		}
		/* input arrives on stdin or from simulated files */
		if (r.chance(1, 4) && n > 1) {
			size_t cut = in.find('\n', in.size() / 2);
			cut = cut == std::string::npos ? in.size() : cut + 1;
			SimFile a, b;
			a.path = "/sim/in/a.txt";
			a.data = in.substr(0, cut);
			b.path = "/sim/in/b.txt";
			b.data = in.substr(cut);
			/* a file need not end in a newline; its last line ends with the file all the same */
			if (r.chance(1, 3) && a.data.size() > 1 && a.data.back() == '\n' && (a.data.size() < 2 || a.data[a.data.size() - 2] != '\r'))
				a.data.pop_back();
			p.files = {a, b};
			p.argv.push_back(a.path);
			p.argv.push_back(b.path);
			p.par["from_files"] = "1";
			/* a process may be started without a standard input: the first pipe end then is descriptor 0 */
			if (r.chance(1, 3))
				p.par["stdin_closed"] = "1";
		} else {
			p.has_input = true;
			p.input = in;
		}
		size_t ns = (size_t)r.range(1, 6);
		for (size_t i = 0; i < ns; i++) {
			Op o;
			o.kind = "rd";
			unsigned k = (unsigned)r.below(10);
			o.a = {k < 3 ? RD_MAX : k < 6 ? RD_NL : k < 8 ? RD_NL1 : RD_ALL, k < 3 ? r.range(1, 64) : 0, 0};
			p.sched.push_back(o);
		}
		/* ---- the process schedule ---- */
		static const int64_t caps[] = {1, 2, 3, 7, 16, 64, 512, 4096, 65536};
		p.par["pipecap"] = std::to_string(caps[r.below(sizeof(caps) / sizeof(*caps))]);
		p.par["shortwrites"] = r.chance(1, 3) ? "1" : "0";
		size_t nx = (size_t)r.range(1, 12);
		for (size_t i = 0; i < nx; i++) {
			Op o;
			o.kind = "xfer";
			unsigned k = (unsigned)r.below(10);
			o.a = {k < 3 ? 1 : k < 5 ? r.range(2, 9) : k < 8 ? r.range(10, 5000) : 0};
			p.ops.push_back(o);
		}
		return p;
	}

	int dtest(const Plan &base, const std::string &a, const char *op, const std::string &b, Stats &st)
	{
		std::string key = a + op + b + (base.par.count("ymcw") ? "#ymcw" : "") + (base.par.count("ifmt") ? "#" + base.par.at("ifmt") : "") + (base.par.count("fromz") ? "#" + base.par.at("fromz") : "");
		auto it = dtest_memo.find(key);
		if (it != dtest_memo.end()) {
			st.mix_value(it->second, key);
			return it->second;
		}
		Plan q;
		q.engine = "sort";
		q.variant = base.variant;
		q.argv = {"dtest", a, op, b};
		if (base.par.count("ymcw"))
			q.argv.insert(q.argv.begin() + 1, {"-i", "%Y-%m-%c-%w"});
		if (base.par.count("ifmt"))
			q.argv.insert(q.argv.begin() + 1, {"-i", base.par.at("ifmt")});
		if (base.par.count("fromz"))
			q.argv.insert(q.argv.begin() + 1, {"--from-zone", base.par.at("fromz")});
		RunResult r = run_plan(q);
		st.add_ref(r);
		int rc = r.crashed() ? -1 : r.exit_code;
		st.mix_value(rc, key);
		if (dtest_memo.size() < 200000)
			dtest_memo[key] = rc;
		return rc;
	}

	Verdict judge(const Plan &p, Stats &st, bool collect) override
	{
		Verdict v;
		Limits lim;
		lim.cpu_s = 4.0;
		lim.max_events = 6000000;
		RunResult r = run_plan(p, lim);
		st.add_probes(r);
		std::string in = p.has_input ? p.input : std::string();
		for (auto &f : p.files)
			in += f.data;	/* a file lacking the final newline still ends its last line */
		if (!p.has_input && p.files.size() == 2 && !p.files[0].data.empty() && p.files[0].data.back() != '\n')
			in = p.files[0].data + "\n" + p.files[1].data;
		auto lines = content_lines(in);
		bool rev = false;
		for (auto &a : p.argv)
			if (a == "-r" || a == "-rr" || a == "--reverse")
				rev = true;
		v.predicate = std::string(rev ? "reverse" : "forward") + (p.par.count("from_files") ? " from_files" : " from_stdin") +
			      " pipecap_" + (p.par.count("pipecap") ? p.par.at("pipecap") : "?") + (p.ipar("shortwrites") ? " shortwrites" : "") +
			      (p.ipar("stdin_closed") ? " stdin_closed" : "");
		if (collect) {
			st.distinct_plans.insert(p.hash());
			if (lines.size() >= 2)
				st.distinct_nontrivial.insert(p.hash());
			auto b = [](uint64_t x) { return x == 0 ? 0 : x < 4 ? 1 : x < 64 ? 2 : x < 1024 ? 3 : 4; };
			uint64_t sig = hash_mix(41, b(r.probes[P_PIPE_FULL]));
			sig = hash_mix(sig, b(r.probes[P_WRITE_SHORT]));
			sig = hash_mix(sig, b(r.probes[P_SCHED_STEP]));
			sig = hash_mix(sig, b(lines.size()));
			sig = hash_mix(sig, (uint64_t)p.ipar("pipecap"));
			sig = hash_mix(sig, rev);
			st.signatures.insert(sig);
			st.named["lines"] += lines.size();
			st.named["reach_pipe_full"] += r.probes[P_PIPE_FULL] ? 1 : 0;
			st.named["reach_short_write"] += r.probes[P_WRITE_SHORT] ? 1 : 0;
			if (p.ipar("stdin_closed"))
				st.named["reach_started_without_stdin"]++;
			if (p.par.count("ymcw"))
				st.named["plans_with_month_count_weekday_dates"]++;
			if (p.par.count("nifmt"))
				st.named[p.ipar("nifmt") >= 16 ? "plans_with_16_or_more_input_formats" : "plans_with_input_formats"]++;
			st.named["reach_vfork"] += r.probes[P_VFORK];
			st.named["reach_exec"] += r.probes[P_EXEC];
			st.named["reach_waitpid"] += r.probes[P_WAITPID];
			st.named["scheduler_steps"] += r.probes[P_SCHED_STEP];
			if (lines.size() > (size_t)SIM_NL)
				st.named["reach_reader_window_reused"]++;
			if (st.samples.size() < 3 && lines.size() > 1 && lines.size() < 6)
				st.samples.push_back((rev ? "dsort -r <<< " : "dsort <<< ") + cquote(in, 160) + " pipecap=" + std::to_string(p.ipar("pipecap")));
		}
		/* ---- liveness and structure ---- */
		if (r.flags & F_DEADLOCK) {
			v.ok = false;
			v.cls = "sort/deadlock";
			v.detail = r.note;
			return v;
		}
		if (r.hang || (r.flags & F_STEP_BUDGET)) {
			v.ok = false;
			v.cls = "sort/hang";
			v.detail = "pipeline does not finish: " + r.note;
			return v;
		}
		if (r.flags & F_FD_MISUSE) {
			v.ok = false;
			v.cls = "sort/descriptor-misuse";
			v.detail = r.note;
			return v;
		}
		if (r.flags & F_READ_OUTSIDE) {
			v.ok = false;
			v.cls = "sort/memory";
			v.detail = r.note;
			return v;
		}
		if (r.flags & F_UNSIM) {
			v.ok = false;
			v.harness = true;
			v.detail = "unmodelled facility: " + r.note;
			return v;
		}
		if (r.crashed()) {
			v.ok = false;
			v.cls = "sort/memory";
			v.detail = r.status_str() + " " + asan_summary(r.err);
			return v;
		}
		if (r.probes[P_EXEC] != 2 || r.probes[P_WAITPID] < 2) {
			v.ok = false;
			v.cls = "sort/pipeline";
			v.detail = "expected two helper processes to be started and waited for, saw " + std::to_string(r.probes[P_EXEC]) + " exec and " +
				   std::to_string(r.probes[P_WAITPID]) + " waitpid";
			return v;
		}
		if (r.exit_code != 0) {
			v.ok = false;
			v.cls = "sort/status";
			v.detail = "exit status " + std::to_string(r.exit_code) + ": " + first_line(r.err);
			return v;
		}
		/* ---- permutation ---- */
		auto outl = content_lines(r.out);
		{
			auto a = lines, b = outl;
			std::sort(a.begin(), a.end());
			std::sort(b.begin(), b.end());
			if (a != b) {
				v.ok = false;
				v.cls = "sort/permutation";
				/* find one witness */
				std::string w;
				size_t i = 0, j = 0;
				while (i < a.size() && j < b.size() && a[i] == b[j]) {
					i++;
					j++;
				}
				if (i < a.size() && (j >= b.size() || a[i] < b[j]))
					w = "input line " + cquote(a[i], 60) + " is missing from the output";
				else if (j < b.size())
					w = "output line " + cquote(b[j], 60) + " is not an input line";
				v.detail = std::to_string(lines.size()) + " lines in, " + std::to_string(outl.size()) + " lines out; " + w;
				return v;
			}
		}
		/* ---- order, by the generator's own instants ---- */
		Key prev[4];
		std::string prevline[4];
		bool have[4] = {false, false, false, false};
		size_t checked = 0;
		for (size_t i = 0; i < outl.size(); i++) {
			Key k = line_key(outl[i]);
			if (!k.dated)
				continue;
			if (have[k.kind]) {
				bool bad = rev ? k.v > prev[k.kind].v : k.v < prev[k.kind].v;
				if (bad) {
					v.ok = false;
					v.cls = "sort/order";
					v.detail = "output line " + cquote(prevline[k.kind], 50) + " comes before " + cquote(outl[i], 50) + (rev ? " with -r" : "");
					return v;
				}
				/* cross-check with the real comparison code on the raw values, a few pairs per plan */
				if (checked < 6 && prev[k.kind].raw != k.raw) {
					checked++;
					int rc = dtest(p, prev[k.kind].raw, rev ? "--ge" : "--le", k.raw, st);
					if (collect)
						st.named["dtest_cross_checks"]++;
					if (rc != 0) {
						v.ok = false;
						v.cls = "sort/comparison";
						v.detail = "dsort puts " + prev[k.kind].raw + " before " + k.raw + (rev ? " (-r)" : "") + " but dtest " + prev[k.kind].raw +
							   (rev ? " --ge " : " --le ") + k.raw + " exits " + std::to_string(rc);
						return v;
					}
				}
			}
			have[k.kind] = true;
			prev[k.kind] = k;
			prevline[k.kind] = outl[i];
		}
		return v;
	}

	std::vector<Plan> candidates(const Plan &p) override
	{
		std::vector<Plan> out;
		if (p.has_input) {
			auto lines = split_lines_keep(p.input);
			for (auto &vv : chunk_removals(lines)) {
				Plan q = p;
				q.input = join(vv);
				out.push_back(q);
			}
		} else {
			for (size_t f = 0; f < p.files.size(); f++) {
				auto lines = split_lines_keep(p.files[f].data);
				for (auto &vv : chunk_removals(lines)) {
					Plan q = p;
					q.files[f].data = join(vv);
					out.push_back(q);
				}
			}
		}
		for (auto &vv : chunk_removals(p.ops)) {
			Plan q = p;
			q.ops = vv;
			out.push_back(q);
		}
		if (!p.sched.empty()) {
			Plan q = p;
			q.sched.clear();
			out.push_back(q);
		}
		if (p.ipar("shortwrites")) {
			Plan q = p;
			q.par["shortwrites"] = "0";
			out.push_back(q);
		}
		if (p.ipar("pipecap") != 65536) {
			Plan q = p;
			q.par["pipecap"] = "65536";
			out.push_back(q);
		}
		return out;
	}
};

} /* anon */

Engine *make_sort_engine() { return new SortEngine(); }

} /* namespace sim */
