/* eng_stream.cc -- C18: sed-mode filters are transparent and independent of chunking
 *
 * System under simulation: dconv -S / dadd -S / dround -S as forked incarnations
 * (real prchunk.c, dt-io.c, proc_line); the simulated read() owns the stream. */
#include "engine.h"
#include "models.h"
#include "invgen.h"
#include <string.h>
#include <algorithm>

#ifndef SIM_NL
# define SIM_NL 16384
# define SIM_LL 1024
# define SIM_CHUNK 4096
#endif

namespace sim {
namespace {

const size_t NL = SIM_NL, WB = (size_t)SIM_NL * SIM_LL, CH = SIM_CHUNK;

enum { RD_MAX = 0, RD_NL = 1, RD_NL1 = 2, RD_CR = 3, RD_ALL = 4 };

struct Line {
	std::string content;	/* without terminator */
	int term;		/* 0 none (last line), 1 LF, 2 CRLF */
};

std::vector<Line> split_input(const std::string &in)
{
	std::vector<Line> v;
	size_t a = 0;
	while (a < in.size()) {
		size_t e = in.find('\n', a);
		Line l;
		if (e == std::string::npos) {
			l.content = in.substr(a);
			l.term = 0;
			v.push_back(l);
			break;
		}
		l.content = in.substr(a, e - a);
		l.term = 1;
		if (!l.content.empty() && l.content.back() == '\r') {
			l.content.pop_back();
			l.term = 2;
		}
		v.push_back(l);
		a = e + 1;
	}
	return v;
}

bool isdig(char c) { return c >= '0' && c <= '9'; }
std::string argv_str(const std::vector<std::string> &a)
{
	std::string r;
	for (auto &x : a)
		r += (r.empty() ? "" : " ") + x;
	return r;
}

/* token = YYYY-MM-DD[THH:MM:SS] bounded by separators; returns false if the line has digits that
 * are not part of such tokens (then the line is judged differentially only) */
struct Tok {
	size_t pos, len;
	int y, m, d;
	bool hastime;
	int H, M, S;
};
bool sepch(char c) { return c == ' ' || c == ',' || c == ';' || c == '(' || c == ')' || c == '\t' || c == '\0'; }
/* what may stand directly in front of a token / directly behind it without becoming part of a date or time:
 * behind, the characters that could continue one (. : + T) are fine as long as no digit follows */
bool prech(char c) { return sepch(c) || c == 'x' || c == '=' || c == '[' || c == '"'; }
bool postch(const std::string &c, size_t i)
{
	if (i >= c.size())
		return true;
	char ch = c[i];
	if (sepch(ch) || ch == 'x' || ch == ']' || ch == '"' || ch == '!')
		return true;
	if (ch == '.' || ch == ':' || ch == '+' || ch == 'T')
		return i + 1 >= c.size() || !isdig(c[i + 1]);
	return false;
}
bool scan_tokens(const std::string &c, std::vector<Tok> &toks)
{
	toks.clear();
	size_t i = 0, n = c.size();
	while (i < n) {
		if (!isdig(c[i])) {
			/* a lone - directly in front of a digit would be read as a sign or a separator */
			if ((c[i] == '-' || c[i] == ':' || c[i] == '+' || c[i] == '.') && i + 1 < n && isdig(c[i + 1]))
				return false;
			i++;
			continue;
		}
		if (i > 0 && !prech(c[i - 1]))
			return false;
		/* need YYYY-MM-DD */
		if (i + 10 > n)
			return false;
		for (int k : {0, 1, 2, 3, 5, 6, 8, 9})
			if (!isdig(c[i + k]))
				return false;
		if (c[i + 4] != '-' || c[i + 7] != '-')
			return false;
		Tok t;
		t.pos = i;
		t.y = atoi(c.substr(i, 4).c_str());
		t.m = atoi(c.substr(i + 5, 2).c_str());
		t.d = atoi(c.substr(i + 8, 2).c_str());
		t.hastime = false;
		t.H = t.M = t.S = 0;
		t.len = 10;
		if (t.y < 1700 || t.y > 2400 || t.m < 1 || t.m > 12 || t.d < 1 || t.d > (int)model::mdays(t.y, t.m))
			return false;
		bool hour_only = i + 14 <= n && isdig(c[i + 11]) && isdig(c[i + 12]) && c[i + 13] == ':' && (i + 14 >= n || !isdig(c[i + 14]));
		if (i + 10 < n && c[i + 10] == 'T' && i + 11 < n && isdig(c[i + 11]) && !hour_only) {
			if (i + 19 > n)
				return false;
			for (int k : {11, 12, 14, 15, 17, 18})
				if (!isdig(c[i + k]))
					return false;
			if (c[i + 13] != ':' || c[i + 16] != ':')
				return false;
			t.hastime = true;
			t.H = atoi(c.substr(i + 11, 2).c_str());
			t.M = atoi(c.substr(i + 14, 2).c_str());
			t.S = atoi(c.substr(i + 17, 2).c_str());
			if (t.H > 23 || t.M > 59 || t.S > 59)
				return false;
			t.len = 19;
			/* a UTC designator belongs to the value */
			if (c.compare(i + 19, 6, "+00:00") == 0)
				t.len = 25;
			else if (i + 19 < n && c[i + 19] == 'Z')
				t.len = 20;
		}
		/* a date, a separator, an hour, a colon and then no minute: the date is the value, the rest is text */
		if (!t.hastime && i + t.len + 4 <= n + 0 && (c[i + 10] == ' ' || c[i + 10] == 'T' || c[i + 10] == '\t') && isdig(c[i + 11]) && isdig(c[i + 12]) &&
		    c[i + 13] == ':' && (i + 14 >= n || !isdig(c[i + 14])) && atoi(c.substr(i + 11, 2).c_str()) <= 24) {
			toks.push_back(t);
			i += 14;
			continue;
		}
		if (!postch(c, i + t.len))
			return false;
		toks.push_back(t);
		i += t.len;
	}
	return true;
}

/* model of the replacement text, "" = unknown */
std::string model_token(const std::string &kind0, const Tok &t)
{
	char b[64];
	std::string kind = kind0.size() > 2 && kind0.compare(kind0.size() - 2, 2, "-E") == 0 ? kind0.substr(0, kind0.size() - 2) : kind0;
	if (kind == "dconv-dmy") {
		snprintf(b, sizeof(b), "%02d.%02d.%04d", t.d, t.m, t.y);
		return b;
	}
	if (kind == "dconv-F") {
		if (t.hastime)
			snprintf(b, sizeof(b), "%04d-%02d-%02dT%02d:%02d:%02d", t.y, t.m, t.d, t.H, t.M, t.S);
		else
			snprintf(b, sizeof(b), "%04d-%02d-%02d", t.y, t.m, t.d);
		return b;
	}
	if (kind == "dadd+1d" || kind == "dadd-1d") {
		int64_t days = model::days_from_civil(t.y, t.m, t.d) + (kind == "dadd+1d" ? 1 : -1);
		int64_t y;
		unsigned m, d;
		model::civil_from_days(days, y, m, d);
		if (t.hastime)
			snprintf(b, sizeof(b), "%04lld-%02u-%02uT%02d:%02d:%02d", (long long)y, m, d, t.H, t.M, t.S);
		else
			snprintf(b, sizeof(b), "%04lld-%02u-%02u", (long long)y, m, d);
		return b;
	}
	if (kind == "dround-Mon") {
		/* next Monday, a Monday stays */
		int64_t days = model::days_from_civil(t.y, t.m, t.d);
		unsigned wd = model::weekday(days);
		days += (7 - wd) % 7;
		int64_t y;
		unsigned m, d;
		model::civil_from_days(days, y, m, d);
		if (t.hastime)
			snprintf(b, sizeof(b), "%04lld-%02u-%02uT%02d:%02d:%02d", (long long)y, m, d, t.H, t.M, t.S);
		else
			snprintf(b, sizeof(b), "%04lld-%02u-%02u", (long long)y, m, d);
		return b;
	}
	return "";
}

struct ToolCfg {
	std::vector<std::string> argv;
	std::string model;
};
const ToolCfg tool_cfgs[] = {
	{{"dconv", "-S", "-f", "%d.%m.%Y"}, "dconv-dmy"},
	{{"dconv", "-S"}, "dconv-F"},
	{{"dadd", "-S", "+1d"}, "dadd+1d"},
	{{"dadd", "-S", "-1d"}, "dadd-1d"},
	{{"dround", "-S", "Mon"}, "dround-Mon"},
	{{"dconv", "-S", "-E", "-f", "%d.%m.%Y"}, "dconv-dmy-E"},
	{{"dround", "-S", "-E", "Mon"}, "dround-Mon-E"},
	{{"dadd", "-S", "-E", "+1d"}, "dadd+1d-E"},
	{{"dconv", "-S", "-i", "%d/%m/%Y", "-f", "%F"}, "none"},
	{{"dadd", "-S", "+1mo"}, "none"},
	/* rounding to a day of the month or to a month, weekday and week fields printed: what is left of a
	 * near miss with a zero month or day must still print without reading outside the calendar tables */
	{{"dround", "-S", "-f", "%F %a %j %G-W%V-%u", "--", "-1"}, "none"},
	{{"dround", "-S", "-f", "%A %B %d %Y %U %W", "Feb", "31"}, "none"},
	{{"dadd", "-S", "-f", "%F %a %j %G-W%V-%u %c", "-1mo"}, "none"},
};

std::string safe_lit(Rng &r, size_t n, bool allow_nul)
{
	static const char alpha[] = "abcdefghijklmnopqrstuvwxyzABCDEFGHIJKLMNOPQRSUVWXY _,;()!?#*=&%$@~\"'<>|[]{}/\\\t";
	std::string s;
	for (size_t i = 0; i < n; i++) {
		unsigned k = (unsigned)r.below(100);
		if (k < 88)
			s += alpha[r.below(sizeof(alpha) - 1)];
		else if (k < 96)
			s += (char)(0x80 + r.below(0x80));
		else if (k < 98)
			s += '\r';
		else if (allow_nul)
			s += '\0';
		else
			s += ' ';
	}
	return s;
}
std::string rand_token(Rng &r)
{
	int y = (int)r.range(1700, 2400), m = (int)r.range(1, 12);
	int d = (int)r.range(1, model::mdays(y, m));
	char b[64];
	if (r.chance(1, 3))
		snprintf(b, sizeof(b), "%04d-%02d-%02dT%02d:%02d:%02d", y, m, d, (int)r.below(24), (int)r.below(60), (int)r.below(60));
	else
		snprintf(b, sizeof(b), "%04d-%02d-%02d", y, m, d);
	return b;
}
std::string near_miss(Rng &r)
{
	static const char *nm[] = {"2012-01-0", "2012-13-45", "24:00:00", "2012-02-30", "12:34", "2012-1-1", "20120101", "2012-01-01-2012-01-02",
				   "1-2-3", "99:99:99", "2012-01-011", "0000-00-00", "x2012-01-01y", "2012-01-01T25:00:00", "--", "::", "-", "2012-",
				   "2012-01-0b", "2012-02-00b", "2012-01-0B", "2012-00-10", "2012-01-0b x", "2012-03-00", "2004-00-02", "2012-00-31", "1999-00-00"};
	return nm[r.below(sizeof(nm) / sizeof(*nm))];
}

std::string gen_line(Rng &r, size_t target_len, int flavour)
{
	/* flavour: 0 literal only, 1 tokens+literals (oracle 3 applies), 2 near misses, 3 empty,
	 * 4 tokens hugged by punctuation that cannot continue a date/time (oracle 3 applies) */
	std::string s;
	if (flavour == 3)
		return s;
	if (flavour == 4) {
		static const char *pre[] = {"", " ", "x", "(", "=", "[", "\"", "log "};
		static const char *post[] = {".", ".x", ". x", ":", ":x", ": x", "+", "+x", "T", "Tx", "x", ",", ")", ";", "]", "\"", "!", "", " x",
					     " 12:xx", "T09:", " 23:y", "\t07:?", " 24:", " 00: x"};
		int nt = (int)r.range(1, 3);
		if (r.chance(1, 10))
			nt = (int)r.range(4, 12);	/* many values on one line */
		for (int i = 0; i < nt; i++) {
			if (i)
				s += " ";
			/* a NUL byte directly in front of or behind a value is an ordinary byte of the line */
			bool nulpre = r.chance(1, 12), nulpost = r.chance(1, 8);
			if (nulpre)
				s += std::string(r.chance(1, 2) ? "x" : "") + '\0';
			else
				s += pre[r.below(sizeof(pre) / sizeof(*pre))];
			std::string tok = rand_token(r);
			if (tok.size() == 19 && r.chance(1, 3))
				tok += r.chance(2, 3) ? "+00:00" : "Z";
			s += tok;
			if (nulpost)
				s += std::string(1, '\0') + (r.chance(1, 2) ? "y" : "");
			else {
				const char *ps = post[r.below(sizeof(post) / sizeof(*post))];
				if (strlen(ps) >= 4 && isdig(ps[1]) && tok.size() != 10) {
					s.erase(s.size() - tok.size());
					s += tok.substr(0, 10);
				}
				s += ps;
			}
		}
		if (r.chance(1, 2))
			s += " " + safe_lit(r, (size_t)r.below(6), false);
		return s;
	}
	if (flavour == 0) {
		s = safe_lit(r, target_len, r.chance(1, 6));
		return s;
	}
	int nt = (int)r.range(1, 3);
	for (int i = 0; i < nt; i++) {
		size_t ll = target_len > 24 ? (size_t)r.below(target_len / nt) : (size_t)r.below(6);
		std::string lit = safe_lit(r, ll, false);
		/* a carriage return inside is fine, separators around the token */
		if (!lit.empty() || r.chance(1, 2))
			lit += " ";
		s += lit;
		s += flavour == 2 && r.chance(1, 2) ? near_miss(r) : rand_token(r);
		if (i + 1 < nt || r.chance(2, 3))
			s += r.chance(1, 2) ? " " : ",";
	}
	if (r.chance(1, 2))
		s += safe_lit(r, (size_t)r.below(8), false);
	if (flavour == 1 && !s.empty() && s.back() == '\r')
		s += ' ';
	return s;
}

struct StreamEngine : Engine {
	std::map<std::string, std::pair<int, std::string>> memo;	/* key -> (status, stdout) of the one-line run */

	const char *name() const override { return "stream"; }
	const char *property() const override { return "C18"; }

	Plan generate(Rng &r, uint64_t idx, const Config &cfg) override
	{
		Plan p;
		(void)idx;
		const ToolCfg &tc = tool_cfgs[r.chance(3, 4) ? r.below(5) : r.below(sizeof(tool_cfgs) / sizeof(*tool_cfgs))];
		p.argv = tc.argv;
		p.par["model"] = tc.model;
		p.has_input = true;
		/* every third plan takes its invocation from the shared grammar: any option set of the three filters, one
		 * input format; the replacement text of a value is what the same tool prints for it as an argument */
		inv::Inv giv;
		bool gram = cfg.iopt("grammar", 1) && r.chance(1, 3);
		std::vector<std::string> gtoks;
		if (gram) {
			static const char *st[] = {"dconv", "dadd", "dround"};
			inv::GenOpt go;
			go.tool = st[r.below(3)];
			go.force_mode = 2;
			go.max_if = 1;
			go.sed_families = true;
			go.one_line = true;
			go.sed_default_forms = true;
			giv = inv::rand_inv(r, go);
			p.argv = inv::inv_argv(giv);
			p.par["model"] = "argmode";
			p.par["pos_at"] = std::to_string(giv.pos_at + 1);
			for (auto &z : giv.zones) {
				std::string data;
				if (real_file_bytes("/usr/share/zoneinfo/" + z, data)) {
					SimFile f;
					f.path = "/usr/share/zoneinfo/" + z;
					f.data = data;
					bool have = false;
					for (auto &g : p.files)
						have |= g.path == f.path;
					if (!have)
						p.files.push_back(f);
				}
			}
		}
		auto gline = [&](size_t target_len, int flavour) {
			/* flavour as in gen_line; values in the invocation's own input format, set off by blanks */
			if (flavour == 3)
				return std::string();
			if (flavour == 0)
				return safe_lit(r, target_len, r.chance(1, 6));
			std::string s2;
			int nt = (int)r.range(1, 3);
			if (r.chance(1, 10))
				nt = (int)r.range(4, 10);
			for (int i = 0; i < nt; i++) {
				size_t ll = target_len > 24 ? (size_t)r.below(target_len / nt) : (size_t)r.below(6);
				std::string lit = safe_lit(r, ll, false);
				while (!lit.empty() && lit.back() == '\r')
					lit.pop_back();
				if (!lit.empty() || i)
					lit += r.chance(1, 6) ? "\t" : " ";
				if (i && !lit.empty() && lit[0] != ' ' && lit[0] != '\t')
					lit.insert(lit.begin(), r.chance(1, 6) ? '\t' : ' ');	/* behind the previous value */
				s2 += lit;
				std::string tok = inv::inv_value(r, giv);
				for (int tries = 0; tries < 8 && (tok.empty() || tok[0] == '-' || tok == " "); tries++)
					tok = inv::inv_value(r, giv);
				if (tok.empty() || tok[0] == '-' || tok == " ")
					tok = "x";
				if (std::find(gtoks.begin(), gtoks.end(), tok) == gtoks.end())
					gtoks.push_back(tok);
				s2 += tok;
			}
			if (giv.ifmts.empty() && r.chance(1, 15))
				/* a near miss (zero month, zero day, business-day suffix ...): judged differentially, watched by the sanitizer */
				return s2 + " " + near_miss(r);
			if (giv.ifmts.empty() && giv.kind == inv::K_DATE && r.chance(1, 6)) {
				/* a day-of-year date is looked for at the end of a line only */
				std::string tok = inv::fmt_value("%Y-%j", inv::rand_civ(r));
				if (std::find(gtoks.begin(), gtoks.end(), tok) == gtoks.end())
					gtoks.push_back(tok);
				return s2 + " " + tok;
			}
			if (r.chance(1, 2)) {
				std::string lit = safe_lit(r, (size_t)r.below(8), false);
				while (!lit.empty() && lit.back() == '\r')
					lit.pop_back();
				s2 += " " + lit;
			}
			return s2;
		};
		bool thorough = cfg.tier == "thorough";

		/* ---- volume class ---- */
		unsigned vc = (unsigned)r.below(100);
		size_t nlines;
		size_t maxlen;		/* typical content length */
		bool few_distinct = false;
		if (WB <= 4096) {
			/* knob builds: the interesting transitions are cheap */
			if (vc < 30)
				nlines = (size_t)r.range(0, 3);
			else if (vc < 60)
				nlines = (size_t)r.range(NL - 1, NL + 2);
			else if (vc < 85)
				nlines = (size_t)r.range(NL + 1, 3 * NL + 3);
			else
				nlines = (size_t)r.range(3 * NL, 8 * NL);
			unsigned lc = (unsigned)r.below(100);
			maxlen = lc < 45 ? (size_t)r.range(0, SIM_LL) : lc < 70 ? (size_t)r.range(0, 2 * SIM_LL + 2) :
				 lc < 80 ? (size_t)r.range(CH - 1, 2 * CH + 1) : lc < 88 ? (size_t)r.range(0, WB / 2) :
				 lc < 94 ? (size_t)r.range(WB - CH - 2, WB + CH + 2) :	/* around the window size */
				 (size_t)r.range(WB, 5 * WB);			/* several doublings of the window */
			if (maxlen > WB / 2 && nlines > 12)
				nlines = (size_t)r.range(1, 12);
		} else {
			if (vc < 55) {
				nlines = (size_t)r.range(0, 6);
				maxlen = (size_t)r.range(0, 80);
			} else if (vc < 75) {
				nlines = (size_t)r.range(1, 40);
				unsigned lc = (unsigned)r.below(4);
				maxlen = lc == 0 ? (size_t)r.range(CH - 2, CH + 2) : lc == 1 ? (size_t)r.range(2 * CH - 2, 2 * CH + 2) :
					 lc == 2 ? (size_t)r.range(SIM_LL - 2, SIM_LL + 2) : (size_t)r.range(0, 3 * CH);
			} else if (vc < 93 || !thorough) {
				/* cross the line cap with short lines */
				nlines = (size_t)r.range(NL - 2, vc < 88 ? NL + 3 : 2 * NL + 5);
				maxlen = (size_t)r.range(0, 3);
				few_distinct = true;
			} else {
				/* approach the byte cap without exceeding it: lines of ~1 KiB */
				nlines = (size_t)r.range(NL / 2, NL + 10);
				maxlen = (size_t)r.range(SIM_LL / 2, SIM_LL - 40);
				few_distinct = true;
			}
		}
		/* every distinct line costs one reference incarnation: long streams draw from a pool */
		if (nlines > 24)
			few_distinct = true;
		std::vector<std::string> pool;
		size_t npool = few_distinct ? (size_t)r.range(1, nlines > 2000 ? 4 : 10) : 0;
		for (size_t i = 0; i < npool; i++) {
			int fl = (int)r.below(10);
			size_t len = maxlen ? (size_t)r.range(maxlen > 4 ? maxlen - 4 : 0, maxlen) : 0;
			pool.push_back(gram ? gline(len, fl < 4 ? 0 : fl < 9 ? 1 : 3) : gen_line(r, len, fl < 4 ? 0 : fl < 7 ? 1 : fl < 8 ? 4 : fl < 9 ? 2 : 3));
		}
		/* terminator style for this stream */
		unsigned ts = (unsigned)r.below(10);	/* 0-5 LF, 6-7 CRLF, 8-9 mixed */
		std::string in;
		for (size_t i = 0; i < nlines; i++) {
			std::string c;
			if (npool)
				c = pool[r.below(npool)];
			else {
				unsigned fl = (unsigned)r.below(20);
				size_t len = r.chance(1, 4) ? maxlen : (size_t)r.below(maxlen + 1);
				c = gram ? gline(len, fl < 7 ? 0 : fl < 19 ? 1 : 3) : gen_line(r, len, fl < 7 ? 0 : fl < 13 ? 1 : fl < 16 ? 4 : fl < 19 ? 2 : 3);
			}
			in += c;
			bool crlf = ts >= 8 ? r.chance(1, 2) : ts >= 6;
			bool last = i + 1 == nlines;
			if (last && r.chance(1, 3))
				break;	/* unterminated last line */
			in += crlf ? "\r\n" : "\n";
		}
		if (nlines && r.chance(1, 25))
			in.insert(0, "\n");	/* first byte is a newline */
		p.input = in;
		/* a switch may be given more than once and in either spelling */
		if (r.chance(1, 12)) {
			for (size_t i = 1; i < p.argv.size(); i++)
				if (p.argv[i] == "-S" || p.argv[i] == "-E") {
					bool sed = p.argv[i] == "-S";
					unsigned k = (unsigned)r.below(4);
					if (k == 0)
						p.argv.insert(p.argv.begin() + (long)i, p.argv[i]);
					else if (k == 1)
						p.argv[i] = sed ? "--sed-mode" : "--empty-mode";
					else if (k == 2)
						p.argv[i] = sed ? "-SS" : "-EE";
					else {
						p.argv.insert(p.argv.begin() + (long)i, sed ? "--sed-mode" : "--empty-mode");
						p.argv.insert(p.argv.begin() + (long)i, p.argv[i + 1]);
					}
					if (p.par.count("pos_at"))
						p.par["pos_at"] = std::to_string(p.ipar("pos_at") + (k == 0 ? 1 : k == 3 ? 2 : 0));
					break;
				}
		}
		for (auto &t : gtoks) {
			Op o;
			o.kind = "tok";
			o.s = t;
			p.ops.push_back(o);
		}

		/* ---- delivery schedule ---- */
		size_t ns = (size_t)r.range(1, 10);
		for (size_t i = 0; i < ns; i++) {
			Op o;
			o.kind = "rd";
			unsigned k = (unsigned)r.below(100);
			int64_t mode = RD_MAX, n = 1;
			if (k < 12)
				n = 1;
			else if (k < 20)
				n = r.range(2, 3);
			else if (k < 30)
				n = (int64_t)CH - 1;
			else if (k < 42)
				n = (int64_t)CH;
			else if (k < 55)
				n = 1 + (int64_t)(r.below(CH) >> r.below(8));
			else if (k < 68)
				mode = RD_NL;
			else if (k < 78)
				mode = RD_NL1;
			else if (k < 86)
				mode = RD_CR;
			else
				mode = RD_ALL;
			o.a = {mode, n, 0};
			p.sched.push_back(o);
		}
		/* big inputs: keep the number of reads reasonable */
		if (in.size() > 200000)
			for (auto &o : p.sched)
				if (o.a[0] == RD_MAX && o.a[1] < 64 && r.chance(3, 4))
					o.a[1] = (int64_t)CH - (int64_t)r.below(3);

		/* ---- fault configuration: separate runs, relaxed oracle ---- */
		if (cfg.iopt("faults", 1) && r.chance(1, 6)) {
			static const int errs[] = {-EIO, EIO, EINTR, EAGAIN};
			p.sched[r.below(p.sched.size())].a[2] = errs[r.below(4)];
			p.par["fault"] = "1";
		}
		return p;
	}

	/* the shipped window: beyond 16 MiB in one line, and beyond 16 MiB before 16384 lines */
	size_t fixed_count(const Config &cfg) override { return WB > 4096 ? (cfg.tier == "thorough" ? 3 : 2) : 0; }
	Plan fixed_plan(size_t i, const Config &) override
	{
		Plan p;
		p.argv = {"dconv", "-S", "-f", "%d.%m.%Y"};
		p.par["model"] = "dconv-dmy";
		p.has_input = true;
		if (i == 0) {
			p.input = "short 2012-01-01 line\n" + std::string(WB + WB / 16, 'z') + " 2012-02-03 \nabc";
		} else if (i == 1) {
			std::string l = std::string(2040, 'y') + "\n";
			for (int k = 0; k < 20000; k++)
				p.input += l;
			p.input += "2012-03-04\n";
		} else {
			p.input = std::string(2 * WB + 100, 'q') + " 2012-05-06";	/* two doublings, unterminated */
		}
		Op o;
		o.kind = "rd";
		o.a = {RD_MAX, (int64_t)CH, 0};
		p.sched.push_back(o);
		return p;
	}

	/* ---- T(c): one-line incarnation, memoised ---- */
	bool single(const Plan &base, const std::string &c, Stats &st, std::string &out, int &status, std::string &why)
	{
		std::string key;
		for (auto &a : base.argv)
			key += a + '\1';
		key += c;
		auto it = memo.find(key);
		if (it != memo.end()) {
			status = it->second.first;
			out = it->second.second;
			st.mix_value(status, out);
			return true;
		}
		Plan q;
		q.engine = "stream";
		q.variant = base.variant;
		q.argv = base.argv;
		q.env = base.env;
		q.clock = base.clock;
		q.has_input = true;
		/* a content that itself ends in CR is fed with a CRLF terminator, so that the reader's
		 * CRLF handling takes the terminator and leaves the content alone */
		q.input = c + (!c.empty() && c.back() == '\r' ? "\r\n" : "\n");
		Limits lim;
		lim.cpu_s = q.input.size() > (1u << 20) ? 30.0 : 3.0;
		lim.max_events = 3000000 + q.input.size() * 4;
		RunResult r = run_plan(q, lim);
		st.add_ref(r);
		if (r.crashed() || r.flags) {
			why = "one-line run of " + cquote(c, 60) + ": " + r.status_str() + " " + r.note + " " + asan_summary(r.err);
			return false;
		}
		status = r.exit_code;
		out = r.out;
		st.mix_value(status, out);
		if (memo.size() < 200000)
			memo[key] = {status, out};
		return true;
	}

	/* ---- the value as an argument of the same tool with the same options: its replacement text ---- */
	std::map<std::string, std::string> argmemo;	/* "" = the tool does not take it */
	bool argmode(const Plan &base, const std::string &tok, Stats &st, std::string &repl)
	{
		std::vector<std::string> a;
		size_t pos = (size_t)base.ipar("pos_at", 0), removed = 0;
		for (size_t i = 0; i < base.argv.size(); i++) {
			const std::string &x = base.argv[i];
			if (i >= 1 && i < pos && (x == "-S" || x == "-E" || x == "-SS" || x == "-EE" || x == "--sed-mode" || x == "--empty-mode")) {
				removed++;
				continue;
			}
			a.push_back(x);
		}
		pos = std::min(a.size(), pos - removed);
		/* dround rounds an argument in the source zone and a stdin value after the conversion to UTC (met while
		 * building this oracle; a matter of dround's own semantics, not of streams): with --from-zone the
		 * reference is the value alone on a line in plain stdin mode */
		/* (dadd likewise: `dadd --from-zone Europe/Berlin 2012-01-28T12:00:00 +100d' adds in zone time, the same
		 * value on stdin is converted first; the two differ by the DST hour) */
		bool via_stdin = base.argv[0] != "dconv" && std::find(base.argv.begin(), base.argv.end(), "--from-zone") != base.argv.end();
		if (!via_stdin)
			a.insert(a.begin() + (long)pos, tok);
		std::string key;
		for (auto &x : a)
			key += x + '\1';
		if (via_stdin)
			key += "\2" + tok;
		auto it = argmemo.find(key);
		if (it != argmemo.end()) {
			repl = it->second;
			st.mix_value(0, repl);
			return !repl.empty();
		}
		Plan q;
		q.engine = "stream";
		q.variant = base.variant;
		q.argv = a;
		q.env = base.env;
		q.clock = base.clock;
		q.files = base.files;
		if (via_stdin) {
			q.has_input = true;
			q.input = tok + "\n";
		}
		RunResult r = run_plan(q);
		st.add_ref(r);
		repl.clear();
		if (!r.crashed() && !r.flags && r.exit_code == 0 && !r.out.empty() && r.out.back() == '\n' && r.out.find('\n') == r.out.size() - 1)
			repl = r.out.substr(0, r.out.size() - 1);
		st.mix_value(0, repl);
		if (argmemo.size() < 200000)
			argmemo[key] = repl;
		return !repl.empty();
	}
	/* -1: not judged (digits outside the generated values, or a value the tool refuses as an argument);
	 * 0: a line without values; 1: a line with values */
	int expect_argmode(const Plan &p, const std::string &c, Stats &st, std::string &exp)
	{
		std::vector<const std::string *> toks;
		for (auto &o : p.ops)
			if (o.kind == "tok" && !o.s.empty())
				toks.push_back(&o.s);
		std::sort(toks.begin(), toks.end(), [](const std::string *a, const std::string *b) { return a->size() > b->size(); });
		bool empty_mode = false;
		for (auto &a : p.argv)
			empty_mode |= a == "-E" || a == "-EE" || a == "--empty-mode";
		exp.clear();
		size_t i = 0, n = c.size(), nt = 0;
		while (i < n) {
			const std::string *m = nullptr;
			bool atword = i == 0 || c[i - 1] == ' ' || c[i - 1] == '\t';
			if (atword)
				for (auto t : toks)
					if (c.compare(i, t->size(), *t) == 0 && (i + t->size() == n || c[i + t->size()] == ' ' || c[i + t->size()] == '\t')) {
						m = t;
						break;
					}
			if (m) {
				std::string repl;
				if (!argmode(p, *m, st, repl))
					return -1;
				exp += repl;
				i += m->size();
				nt++;
				continue;
			}
			if (isdig(c[i]))
				return -1;
			exp += c[i++];
		}
		if (nt == 0 && empty_mode)
			exp.clear();
		return nt ? 1 : 0;
	}

	std::string predicates(const Plan &p)
	{
		std::string pr;
		auto lines = split_input(p.input);
		size_t longest = 0;
		for (auto &l : lines)
			longest = std::max(longest, l.content.size() + (size_t)l.term);
		if (longest + CH > WB)
			pr += "line_plus_chunk_exceeds_window ";
		if (p.input.size() + CH > WB)
			pr += "input_plus_chunk_exceeds_window ";
		if (lines.size() > NL)
			pr += "more_lines_than_line_cap ";
		if (lines.size() >= NL)
			pr += "reaches_line_cap ";
		if (!lines.empty() && lines.back().term == 0)
			pr += "unterminated_last_line ";
		if (!p.input.empty() && p.input[0] == '\n')
			pr += "first_byte_newline ";
		if (p.par.count("fault"))
			pr += "read_fault ";
		bool eintr = false;
		for (auto &o : p.sched)
			if (o.arg(2) == EINTR || o.arg(2) == EAGAIN)
				eintr = true;
		if (eintr)
			pr += "eintr_or_eagain ";
		if (p.input.find('\0') != std::string::npos)
			pr += "nul_byte ";
		pr += "tool_" + p.argv[0] + " ";
		if (!pr.empty())
			pr.pop_back();
		return pr;
	}

	uint64_t signature(const Plan &p, const RunResult &r)
	{
		/* (boundary position class of each read) x (window event) multiset, compressed into a hash:
		 * derived from the probes of the run and coarse plan features */
		uint64_t h = 3;
		auto b = [](uint64_t v) { return v == 0 ? 0 : v == 1 ? 1 : v < 4 ? 2 : v < 16 ? 3 : v < 256 ? 4 : 5; };
		h = hash_mix(h, b(r.probes[P_READ_SPLIT_LINE]));
		h = hash_mix(h, b(r.probes[P_READ_CRLF_SPLIT]));
		h = hash_mix(h, b(r.probes[P_READ_1BYTE]));
		h = hash_mix(h, b(r.probes[P_READS]));
		auto lines = split_input(p.input);
		h = hash_mix(h, lines.size() > NL ? 2 : lines.size() == NL ? 1 : 0);
		h = hash_mix(h, p.input.size() / (WB / 4 + 1));
		h = hash_mix(h, !lines.empty() && lines.back().term == 0);
		h = hash_str(h, p.argv[0]);
		for (auto &o : p.sched)
			h = hash_mix(h, (uint64_t)o.arg(0) * 7 + b((uint64_t)o.arg(1)));
		return h;
	}

	Verdict judge(const Plan &p, Stats &st, bool collect) override
	{
		Verdict v;
		v.predicate = predicates(p);
		bool fault = p.par.count("fault") != 0;
		Limits lim;
		lim.cpu_s = p.input.size() > (1u << 20) ? 30.0 : 3.0;
		lim.max_events = 3000000 + p.input.size() * 4;
		RunResult r = run_plan(p, lim);
		st.add_probes(r);
		auto lines = split_input(p.input);
		if (collect) {
			st.distinct_plans.insert(p.hash());
			bool nontrivial = r.probes[P_READ_SPLIT_LINE] > 0 || lines.size() >= NL || p.input.size() + CH > WB;
			if (nontrivial)
				st.distinct_nontrivial.insert(p.hash());
			st.signatures.insert(signature(p, r));
			st.named["lines"] += lines.size();
			st.named["bytes"] += p.input.size();
			if (fault)
				st.named["fault_plans"]++;
			st.named["fault_fired_read_error"] += r.probes[P_READ_ERR];
			if (lines.size() > NL)
				st.named["reach_line_cap_crossed"]++;
			if (lines.size() > NL && lines.back().term == 0)
				st.named["reach_unterminated_after_refill"]++;
			if (!lines.empty() && lines.back().term == 0 && lines.size() <= NL)
				st.named["reach_unterminated_first_window"]++;
			if (p.input.size() > WB)
				st.named["reach_input_exceeds_window_bytes"]++;
			if (!p.input.empty() && p.input[0] == '\n')
				st.named["reach_first_byte_newline"]++;
			if (r.probes[P_READ_CRLF_SPLIT])
				st.named["reach_cr_lf_in_different_reads"]++;
			if (st.samples.size() < 4 && !lines.empty() && lines.size() < 6 && p.input.size() < 200)
				st.samples.push_back(cquote(argv_str(p.argv) + " <<< " + p.input, 300) + " sched=" + std::to_string(p.sched.size()) + " reads");
		}
		/* ---- structural oracle (4) ---- */
		if (r.hang) {
			v.ok = false;
			v.cls = "stream/hang";
			v.detail = "no termination within the CPU budget: " + r.note;
			return v;
		}
		if (r.flags & F_STEP_BUDGET) {
			v.ok = false;
			v.cls = "stream/hang";
			v.detail = r.note;
			return v;
		}
		if (r.flags & F_READ_OUTSIDE) {
			v.ok = false;
			v.cls = "stream/read-outside-window";
			v.detail = r.note;
			return v;
		}
		if (r.asan || r.signal) {
			v.ok = false;
			v.cls = "stream/memory";
			v.detail = r.status_str() + ": " + asan_summary(r.err);
			return v;
		}
		if (r.flags) {
			v.ok = false;
			v.harness = true;
			v.detail = "unexpected simulator flag: " + r.note;
			return v;
		}
		/* an option set the tool refuses outright (every run fails before it reads) says nothing about streams */
		if (p.par.count("model") && p.par.at("model") == "argmode") {
			std::string out, why;
			int status = 0;
			if (single(p, "", st, out, status, why) && out.empty() && status != 0) {
				if (collect)
					st.named["grammar_invocations_refused_by_the_tool"]++;
				return v;
			}
		}
		/* ---- expected output from per-line runs (oracle 2) ---- */
		std::vector<std::string> t(lines.size());
		bool any_single_nonzero = false;
		for (size_t i = 0; i < lines.size(); i++) {
			std::string out, why;
			int status = 0;
			if (!single(p, lines[i].content, st, out, status, why)) {
				v.ok = false;
				v.cls = "stream/memory";
				v.detail = why;
				return v;
			}
			if (status)
				any_single_nonzero = true;
			/* T(c) must be exactly one line */
			if (out.empty() || out.back() != '\n' || out.find('\n') != out.size() - 1) {
				v.ok = false;
				v.cls = "stream/lines";
				v.detail = "one-line input " + cquote(lines[i].content, 60) + " does not produce exactly one output line: " + cquote(out, 80);
				return v;
			}
			t[i] = out.substr(0, out.size() - 1);
			/* ---- absolute transparency (oracle 3) ---- */
			const std::string &c = lines[i].content;
			std::vector<Tok> toks;
			std::string mk = p.par.count("model") ? p.par.at("model") : "none";
			if (mk == "argmode") {
				std::string exp;
				int kind = expect_argmode(p, c, st, exp);
				if (collect && kind >= 0)
					st.named[kind ? "oracle3_argmode_token_lines" : "oracle3_argmode_literal_lines"]++;
				if (kind >= 0 && exp != t[i]) {
					v.ok = false;
					v.cls = "stream/transparency";
					v.detail = argv_str(p.argv) + ": line " + cquote(c, 80) + " came out as " + cquote(t[i], 80) + ", expected " + cquote(exp, 80) +
						   " (each value replaced by what the tool prints for it as an argument)";
					return v;
				}
			} else if (mk != "none" && scan_tokens(c, toks)) {
				std::string exp;
				size_t a = 0;
				for (auto &tk : toks) {
					exp += c.substr(a, tk.pos - a);
					exp += model_token(mk, tk);
					a = tk.pos + tk.len;
				}
				exp += c.substr(a);
				/* empty mode: a line without any date/time comes out empty */
				if (toks.empty() && mk.size() > 2 && mk.compare(mk.size() - 2, 2, "-E") == 0)
					exp.clear();
				if (collect)
					st.named[toks.empty() ? "oracle3_literal_lines" : "oracle3_token_lines"]++;
				if (exp != t[i]) {
					v.ok = false;
					v.cls = "stream/transparency";
					v.detail = "line " + cquote(c, 80) + " came out as " + cquote(t[i], 80) + ", expected " + cquote(exp, 80);
					return v;
				}
			} else if (std::none_of(c.begin(), c.end(), isdig) && std::none_of(p.argv.begin(), p.argv.end(), [](const std::string &a) { return a == "-E" || a == "-EE" || a == "--empty-mode"; })) {
				if (collect)
					st.named["oracle3_literal_lines"]++;
				if (t[i] != c) {
					v.ok = false;
					v.cls = "stream/transparency";
					v.detail = "line without any digit " + cquote(c, 80) + " came out as " + cquote(t[i], 80);
					return v;
				}
			}
		}
		/* ---- compare, terminators leniently ---- */
		const std::string &o = r.out;
		size_t pos = 0, k = 0;
		std::string mism;
		for (; k < lines.size(); k++) {
			if (o.compare(pos, t[k].size(), t[k]) != 0 || pos + t[k].size() > o.size()) {
				mism = "output line " + std::to_string(k) + " of " + std::to_string(lines.size()) + ": expected " +
				       cquote(t[k], 60) + ", got " + cquote(o.substr(std::min(pos, o.size()), 60), 60);
				break;
			}
			size_t q = pos + t[k].size();
			if (lines[k].term == 0) {
				/* unterminated last line: LF or nothing, a kept trailing CR variant is accepted too */
				if (q == o.size())
					pos = q;
				else if (o[q] == '\n')
					pos = q + 1;
				else {
					mism = "after unterminated last line: " + cquote(o.substr(q, 40), 40);
					break;
				}
			} else if (o.compare(q, 1, "\n") == 0 && q < o.size()) {
				pos = q + 1;
			} else if (lines[k].term == 2 && o.compare(q, 2, "\r\n") == 0) {
				pos = q + 2;
			} else {
				mism = "output line " + std::to_string(k) + ": terminator missing after " + cquote(t[k], 40) + ", got " +
				       cquote(o.substr(std::min(q, o.size()), 40), 40);
				break;
			}
		}
		if (mism.empty() && pos != o.size())
			mism = "extra output after the last line: " + cquote(o.substr(pos, 60), 60);
		/* an unterminated last line ending in CR: the variant that strips the CR is accepted as well */
		if (!mism.empty() && !lines.empty() && lines.back().term == 0 && !lines.back().content.empty() &&
		    lines.back().content.back() == '\r' && k == lines.size() - 1)
			mism.clear();

		if (fault) {
			/* relaxed: a prefix at line granularity; at most one further (partial) line when the error hit inside it */
			if (mism.empty())
				return v;
			if (r.probes[P_READ_ERR] == 0) {
				/* the fault never fired: strict */
			} else {
				size_t rest = o.size() - std::min(pos, o.size());
				std::string tail = o.substr(std::min(pos, o.size()));
				size_t nl = std::count(tail.begin(), tail.end(), '\n');
				bool partial_ok = nl <= 1 && (nl == 0 || tail.back() == '\n') && k < lines.size() &&
						  tail.size() <= t[k].size() + 64;
				if (rest == 0 || partial_ok)
					return v;
				v.ok = false;
				v.cls = "stream/fault-wrong-data";
				v.detail = "after an injected read error the output is not a line-prefix of the expected output: " + mism;
				return v;
			}
		}
		if (!mism.empty()) {
			/* oracle 1 decides which clause: trivial schedule, same binary, same input */
			Plan q = p;
			q.sched.clear();
			q.par.erase("fault");
			RunResult r0 = run_plan(q, lim);
			st.add_probes(r0);
			v.ok = false;
			if (!r0.crashed() && r0.out != r.out) {
				v.cls = "stream/schedule-dependence";
				v.detail = "output under the generated read schedule differs from the one-read delivery; " + mism;
			} else {
				v.cls = "stream/lines";
				v.detail = mism;
			}
			return v;
		}
		/* ---- oracle 1, always: the same bytes delivered as fast as the reader asks for them ---- */
		if (!fault && !p.sched.empty()) {
			Plan q = p;
			q.sched.clear();
			RunResult r0 = run_plan(q, lim);
			st.add_probes(r0);
			if (collect)
				st.named["oracle1_schedule_pairs"]++;
			if (r0.crashed() || r0.flags) {
				v.ok = false;
				v.cls = r0.hang || (r0.flags & F_STEP_BUDGET) ? "stream/hang" : "stream/memory";
				v.detail = "under the one-read delivery: " + r0.status_str() + " " + r0.note + " " + asan_summary(r0.err);
				return v;
			}
			if (r0.out != r.out || r0.exit_code != r.exit_code) {
				size_t d = 0;
				while (d < r0.out.size() && d < r.out.size() && r0.out[d] == r.out[d])
					d++;
				v.ok = false;
				v.cls = "stream/schedule-dependence";
				v.detail = "output under the generated read schedule differs from the one-read delivery at byte " + std::to_string(d) + ": " +
					   cquote(r.out.substr(d > 20 ? d - 20 : 0, 60), 60) + " vs " + cquote(r0.out.substr(d > 20 ? d - 20 : 0, 60), 60);
				return v;
			}
		}
		if (!fault && !lines.empty()) {
			bool nz = r.exit_code != 0;
			if (nz != any_single_nonzero) {
				v.ok = false;
				v.cls = "stream/status";
				v.detail = "exit status " + std::to_string(r.exit_code) + " but per-line runs " + (any_single_nonzero ? "had" : "had no") + " failure";
				return v;
			}
		}
		return v;
	}

	std::vector<Plan> candidates(const Plan &p) override
	{
		std::vector<Plan> out;
		auto lines = split_lines_keep(p.input);
		/* fewer lines first */
		for (auto &vv : chunk_removals(lines)) {
			Plan q = p;
			q.input = join(vv);
			out.push_back(q);
		}
		/* simpler schedule */
		if (!p.sched.empty()) {
			Plan q = p;
			q.sched.clear();
			out.push_back(q);
		}
		for (auto &vv : chunk_removals(p.sched)) {
			Plan q = p;
			q.sched = vv;
			if (q.par.count("fault")) {
				bool any = false;
				for (auto &o : q.sched)
					if (o.arg(2))
						any = true;
				if (!any)
					q.par.erase("fault");
			}
			out.push_back(q);
		}
		/* shorter lines: halve each long line, simplify bytes */
		for (size_t i = 0; i < lines.size() && out.size() < 400; i++) {
			std::string &l = lines[i];
			std::string body = l, term;
			while (!body.empty() && (body.back() == '\n' || body.back() == '\r')) {
				term.insert(term.begin(), body.back());
				body.pop_back();
			}
			if (body.size() >= 2) {
				for (int half = 0; half < 2; half++) {
					auto w = lines;
					w[i] = (half ? body.substr(body.size() / 2) : body.substr(0, body.size() / 2)) + term;
					Plan q = p;
					q.input = join(w);
					out.push_back(q);
				}
			}
			if (body.size() == 1 || (body.size() < 40 && body.size() > 0)) {
				auto w = lines;
				w[i] = body.substr(0, body.size() - 1) + term;
				Plan q = p;
				q.input = join(w);
				out.push_back(q);
			}
			if (term == "\r\n") {
				auto w = lines;
				w[i] = body + "\n";
				Plan q = p;
				q.input = join(w);
				out.push_back(q);
			}
			bool plain = std::all_of(body.begin(), body.end(), [](char c) { return c == 'a'; });
			if (!plain && std::none_of(body.begin(), body.end(), isdig)) {
				auto w = lines;
				w[i] = std::string(body.size(), 'a') + term;
				Plan q = p;
				q.input = join(w);
				out.push_back(q);
			}
		}
		/* simpler read sizes */
		for (size_t i = 0; i < p.sched.size(); i++) {
			if (p.sched[i].arg(0) != RD_ALL) {
				Plan q = p;
				q.sched[i].a = {RD_ALL, 0, p.sched[i].arg(2)};
				out.push_back(q);
			}
		}
		return out;
	}
};

} /* anon */

Engine *make_stream_engine() { return new StreamEngine(); }

} /* namespace sim */
