/* engines not built yet */
#include "engine.h"
namespace sim {
#ifndef HAVE_ENG_ZONE
Engine *make_zone_engine() { return nullptr; }
Engine *make_zoneh_engine() { return nullptr; }
#endif
#ifndef HAVE_ENG_HIST
Engine *make_hist_engine() { return nullptr; }
#endif
#ifndef HAVE_ENG_FILES
Engine *make_files_engine() { return nullptr; }
#endif
#ifndef HAVE_ENG_ENV
Engine *make_env_engine() { return nullptr; }
#endif
#ifndef HAVE_ENG_SORT
Engine *make_sort_engine() { return nullptr; }
#endif
}
