/* eng_files.cc -- C19: zone files and zone maps load safely and look up faithfully
 *
 * (1) loader robustness: valid images (installed and synthetic zone files, maps produced by the real map
 *     compiler inside the same incarnation) under a fault sequence on the simulated file layer
 *     (truncation, flipped/saturated header fields, torn bytes, splices, failing open/fstat/mmap/malloc),
 *     then open + lookups + close; oracle: returns, no sanitizer report, no signal, no access outside the image;
 * (2) map compile -> lookup: every key of a generated source, and absent keys around them, against the
 *     source as a map; write faults on the compiler with the relaxed oracle "fails and leaves nothing
 *     behind, or produces a complete map". */
#include "engine.h"
#include "models.h"
#include <string.h>
#include <errno.h>
#include <dirent.h>
#include <sys/stat.h>
#include <algorithm>

extern "C" {
#include "tzraw.h"
#include "tzmap.h"
zif_t dt_io_zone(const char *spec);
void dt_io_clear_zones(void);
}

namespace sim {
void blob_append(const std::string &s);
bool fs_get(const std::string &path, std::string &out);
void fs_put(const std::string &path, const std::string &data);
void arm_alloc_faults(bool on);
int open_fd_count(void);
void set_sysfault(const std::string &kind, int64_t nth, int err);
void clear_sysfaults(void);

namespace {

/* ---------- image mutation (the fault sequence) ---------- */
std::string apply_faults(std::string img, const std::vector<Op> &ops, const std::string &other)
{
	for (auto &o : ops) {
		if (o.kind == "trunc") {
			size_t k = (size_t)o.arg(0);
			if (k < img.size())
				img.resize(k);
		} else if (o.kind == "flip") {
			size_t k = (size_t)o.arg(0);
			if (k < img.size())
				img[k] = (char)(img[k] ^ (char)o.arg(1, 0xff));
		} else if (o.kind == "set32") {
			size_t k = (size_t)o.arg(0);
			uint32_t v = (uint32_t)o.arg(1);
			if (k + 4 <= img.size()) {
				img[k] = (char)(v >> 24);
				img[k + 1] = (char)(v >> 16);
				img[k + 2] = (char)(v >> 8);
				img[k + 3] = (char)v;
			}
		} else if (o.kind == "set8") {
			size_t k = (size_t)o.arg(0);
			if (k < img.size())
				img[k] = (char)o.arg(1);
		} else if (o.kind == "zero") {
			size_t k = (size_t)o.arg(0), n = (size_t)o.arg(1);
			for (size_t i = k; i < img.size() && i < k + n; i++)
				img[i] = 0;
		} else if (o.kind == "fill") {
			size_t k = (size_t)o.arg(0), n = (size_t)o.arg(1);
			for (size_t i = k; i < img.size() && i < k + n; i++)
				img[i] = (char)o.arg(2, 0xff);
		} else if (o.kind == "append") {
			img += o.s;
		} else if (o.kind == "splice") {
			size_t k = (size_t)o.arg(0), j = (size_t)o.arg(1);
			img = img.substr(0, std::min(k, img.size())) + (j < other.size() ? other.substr(j) : std::string());
		} else if (o.kind == "replace") {
			img = o.s;
		}
	}
	return img;
}
bool is_fault(const Op &o)
{
	static const char *k[] = {"trunc", "flip", "set32", "set8", "zero", "fill", "append", "splice", "replace"};
	for (auto x : k)
		if (o.kind == x)
			return true;
	return false;
}

/* ---------- system zone files ---------- */
std::vector<std::string> g_sys;
void scan(const std::string &d, int depth)
{
	DIR *dp = opendir(d.c_str());
	if (!dp)
		return;
	std::vector<std::string> names;
	while (struct dirent *e = readdir(dp))
		if (e->d_name[0] != '.')
			names.push_back(e->d_name);
	closedir(dp);
	std::sort(names.begin(), names.end());
	for (auto &n : names) {
		std::string p = d + "/" + n;
		struct stat st;
		if (::stat(p.c_str(), &st) < 0)
			continue;
		if (S_ISDIR(st.st_mode)) {
			if (depth < 3 && n != "posix" && n != "right")
				scan(p, depth + 1);
		} else if (S_ISREG(st.st_mode) && st.st_size > 44 && st.st_size < 200000)
			g_sys.push_back(p);
	}
}
const std::vector<std::string> &sysfiles()
{
	static bool done;
	if (!done) {
		done = true;
		scan("/usr/share/zoneinfo", 0);
	}
	return g_sys;
}

/* ---------- map sources ---------- */
const char *const zone_pool[] = {
	"Etc/GMT", "Etc/GMT+1", "Etc/GMT+10", "Etc/GMT-1", "GMT", "GMT0", "GMT+0", "US/Pacific", "US/Pacific-New", "Europe/Berlin",
	"Europe/London", "Europe/Paris", "America/New_York", "America/Indiana/Indianapolis", "America/Indiana/Knox", "Asia/Tokyo",
	"Asia/Kolkata", "Asia/Kathmandu", "Australia/Lord_Howe", "UTC", "Etc/UTC", "Europe/Belfast", "Europe/Bel", "America/Argentina/ComodRivadavia",
	"Africa/Casablanca", "Pacific/Apia", "Asia/Gaza", "Zulu", "W-SU", "EST5EDT", "EST", "Japan", "Jamaica", "NZ", "NZ-CHAT",
};
struct MapSrc {
	std::vector<std::pair<std::string, std::string>> ent;	/* ascending keys */
	std::string text() const
	{
		std::string s;
		for (auto &e : ent)
			s += e.first + "\t" + e.second + "\n";
		return s;
	}
};
/* the source as a map: what the compiler is specified to store */
std::map<std::string, std::string> parse_src(const std::string &txt)
{
	std::map<std::string, std::string> m;
	for (auto &l : split_lines_keep(txt)) {
		std::string s = l;
		if (!s.empty() && s.back() == '\n')
			s.pop_back();
		size_t t = s.find('\t');
		if (t == std::string::npos || t == 0 || t + 1 >= s.size() || t > 255)
			continue;
		m[s.substr(0, t)] = s.substr(t + 1);
	}
	return m;
}
std::string gen_key(Rng &r, int style)
{
	static const char a1[] = "AB", a2[] = "ABCDEFGHIJKLMNOPQRSTUVWXYZ", a3[] = "ABab019-_/.:";
	const char *al = style == 0 ? a1 : style == 1 ? a2 : a3;
	size_t an = strlen(al);
	size_t len;
	unsigned k = (unsigned)r.below(100);
	if (style == 1 && k < 60)
		len = 3 + r.below(2);	/* IATA/ICAO like */
	else if (k < 70)
		len = (size_t)r.range(1, 9);
	else if (k < 95)
		len = (size_t)r.range(1, 20);
	else
		len = (size_t)r.range(200, 255);
	std::string s;
	for (size_t i = 0; i < len; i++)
		s += al[r.below(an)];
	return s;
}
MapSrc gen_src(Rng &r)
{
	MapSrc m;
	int style = (int)r.below(3);
	size_t n;
	unsigned k = (unsigned)r.below(100);
	n = k < 30 ? (size_t)r.range(1, 6) : k < 80 ? (size_t)r.range(7, 60) : (size_t)r.range(61, 400);
	std::vector<std::string> keys;
	for (size_t i = 0; i < n * 2 && keys.size() < n; i++) {
		std::string key = gen_key(r, style);
		/* neighbours: extensions and prefixes of existing keys */
		if (!keys.empty() && r.chance(1, 4)) {
			key = keys[r.below(keys.size())];
			if (r.chance(1, 2) && key.size() < 250)
				key += "AB"[r.below(2)];
			else if (key.size() > 1)
				key.pop_back();
		}
		keys.push_back(key);
	}
	std::sort(keys.begin(), keys.end());
	keys.erase(std::unique(keys.begin(), keys.end()), keys.end());
	size_t npool = sizeof(zone_pool) / sizeof(*zone_pool);
	size_t nz = (size_t)r.range(1, (int64_t)npool);
	for (auto &key : keys)
		m.ent.push_back({key, zone_pool[r.below(nz)]});
	return m;
}

struct FilesEngine : Engine {
	const char *name() const override { return "files"; }
	const char *property() const override { return "C19"; }

	/* ---- zone image fault generation ---- */
	static void zone_faults(Rng &r, const std::string &img, Plan &p)
	{
		size_t n = img.size();
		/* header geometry */
		auto cnt = [&](size_t h, int i) -> size_t { return h + 20 + 4 * i + 4 <= n ? model::be32((const unsigned char *)img.data() + h + 20 + 4 * i) : 0; };
		size_t h2 = 0;
		if (n >= 44 && img[4] != 0)
			h2 = 44 + cnt(0, 3) * 5 + cnt(0, 4) * 6 + cnt(0, 5) + cnt(0, 2) * 8 + cnt(0, 1) + cnt(0, 0);
		if (h2 + 44 > n)
			h2 = 0;
		std::vector<size_t> bounds = {0, 1, 4, 5, 19, 20, 21, 24, 28, 32, 36, 40, 43, 44, 45};
		if (h2) {
			for (size_t b : {0, 4, 5, 20, 32, 36, 40, 44})
				bounds.push_back(h2 + b);
			size_t ntr = cnt(h2, 3), nty = cnt(h2, 4);
			bounds.push_back(h2 + 44 + ntr * 8);
			bounds.push_back(h2 + 44 + ntr * 9);
			bounds.push_back(h2 + 44 + ntr * 9 + nty * 6);
			/* where the tables would end were the stamps 4 bytes wide */
			bounds.push_back(h2 + 44 + ntr * 4);
			bounds.push_back(h2 + 44 + ntr * 5);
			bounds.push_back(h2 + 44 + ntr * 5 + nty * 6);
		} else {
			size_t ntr = cnt(0, 3), nty = cnt(0, 4);
			bounds.push_back(44 + ntr * 4);
			bounds.push_back(44 + ntr * 5);
			bounds.push_back(44 + ntr * 5 + nty * 6);
		}
		if (h2 && r.chance(1, 12)) {
			/* the two headers disagree about the version, and the file ends where the narrower layout would */
			size_t ntr = cnt(h2, 3), nty = cnt(h2, 4);
			Op a, b;
			a.kind = "set8";
			a.a = {(int64_t)((r.chance(1, 2) ? h2 : 0) + 4), r.chance(1, 2) ? 0 : (r.chance(1, 2) ? '2' : '3')};
			b.kind = "trunc";
			b.a = {(int64_t)(h2 + 44 + ntr * 5 + nty * 6 + (size_t)r.range(0, 3))};
			p.ops.push_back(a);
			if (r.chance(3, 4))
				p.ops.push_back(b);
			return;
		}
		size_t nf = (size_t)r.range(1, 4);
		for (size_t i = 0; i < nf; i++) {
			Op o;
			unsigned k = (unsigned)r.below(100);
			size_t hdr = h2 && r.chance(2, 3) ? h2 : 0;
			if (k < 25) {
				o.kind = "trunc";
				size_t b = r.chance(3, 4) ? bounds[r.below(bounds.size())] + (size_t)r.range(-1, 1) : (size_t)r.below(n + 1);
				o.a = {(int64_t)std::min(b, n)};
			} else if (k < 55) {
				o.kind = "set32";
				int field = (int)r.below(6);
				size_t cur = cnt(hdr, field);
				static const int64_t vals[] = {0, 1, 2, 255, 256, 257, 65535, 65536, 0x7fffffff, 0x80000000LL, 0xffffffffLL, 0xfffffffeLL, 0x20000000, 0x10000000};
				int64_t v = r.chance(1, 3) ? (int64_t)cur + r.range(-2, 2) : r.chance(1, 5) ? (int64_t)cur * 2 : vals[r.below(sizeof(vals) / sizeof(*vals))];
				o.a = {(int64_t)(hdr + 20 + 4 * field), v < 0 ? 0 : v};
			} else if (k < 63) {
				o.kind = "set8";	/* version byte */
				static const int vv[] = {0, '1', '2', '3', '4', 0xff, ' '};
				o.a = {(int64_t)(hdr + 4), vv[r.below(7)]};
			} else if (k < 70) {
				o.kind = "flip";	/* second magic / first magic */
				o.a = {(int64_t)(hdr + r.below(4)), (int64_t)(1 + r.below(255))};
			} else if (k < 80) {
				/* a type index beyond typecnt */
				size_t ntr = cnt(hdr, 3);
				size_t tsz = hdr ? 8 : (img.size() > 4 && img[4] && !h2 ? 4 : 4);
				if (hdr)
					tsz = 8;
				o.kind = "set8";
				o.a = {(int64_t)(hdr + 44 + ntr * tsz + (ntr ? r.below(ntr) : 0)), (int64_t)r.range(cnt(hdr, 4), 255)};
			} else if (k < 88) {
				o.kind = r.chance(1, 2) ? "zero" : "fill";
				o.a = {(int64_t)r.below(n + 1), (int64_t)r.range(1, 64), 0xff};
			} else if (k < 94) {
				o.kind = "flip";
				o.a = {(int64_t)r.below(n ? n : 1), (int64_t)(1 + r.below(255))};
			} else if (k < 97) {
				o.kind = "splice";
				o.a = {(int64_t)r.below(n + 1), (int64_t)r.below(n + 1)};
			} else {
				o.kind = "replace";
				static const size_t sz[] = {0, 1, 20, 21, 43, 44, 45, 100};
				size_t len = sz[r.below(8)];
				std::string s;
				for (size_t j = 0; j < len; j++)
					s += (char)r.below(256);
				if (r.chance(1, 2) && len >= 4)
					s.replace(0, 4, "TZif");
				o.s = s;
				if (s.empty())
					o.a = {0};
			}
			p.ops.push_back(o);
		}
	}
	static void sys_faults(Rng &r, Plan &p, bool alloc)
	{
		unsigned k = (unsigned)r.below(100);
		Op o;
		if (k < 25) {
			o.kind = "sysfault";
			o.s = "open";
			o.a = {1, r.chance(1, 2) ? ENOENT : EMFILE};
		} else if (k < 50) {
			o.kind = "sysfault";
			o.s = "fstat";
			o.a = {1, EIO};
		} else if (k < 75) {
			o.kind = "sysfault";
			o.s = "mmap";
			o.a = {1, ENOMEM};
		} else if (alloc) {
			o.kind = "allocfault";
			o.a = {r.range(1, 3), 0};	/* armed by the body around the loader only */
		} else
			return;
		p.ops.push_back(o);
	}

	Plan generate(Rng &r, uint64_t idx, const Config &cfg) override
	{
		(void)idx;
		(void)cfg;
		Plan p;
		unsigned k = (unsigned)r.below(100);
		if (k < 45) {
			/* ---- zone file loader ---- */
			p.par["kind"] = "zif";
			std::string img;
			std::string origin = r.pick(sysfiles());
			if (r.chance(1, 5)) {
				/* shapes the installed database does not have: hundreds of types, thousands of transitions, v1 only */
				origin = "synthetic";
				img = synth_zone_image(r, r.chance(1, 3));
			} else
				real_file_bytes(origin, img);
			p.par["origin"] = origin;
			SimFile f;
			f.path = "/sim/zi/Z";
			f.data = img;
			p.files.push_back(f);
			if (r.chance(1, 12)) {
				std::string other;
				real_file_bytes(r.pick(sysfiles()), other);
				SimFile g;
				g.path = "/sim/zi/other";
				g.data = other;
				p.files.push_back(g);
			}
			if (r.chance(origin == "synthetic" ? 1 : 9, origin == "synthetic" ? 2 : 10))
				zone_faults(r, img, p);
			if (r.chance(1, 6))
				sys_faults(r, p, true);
			size_t nl = (size_t)r.range(1, 12);
			for (size_t i = 0; i < nl; i++) {
				Op o;
				static const char *kinds[] = {"L", "L", "U", "R", "T"};
				o.kind = kinds[r.below(5)];
				unsigned t = (unsigned)r.below(10);
				o.a = {t < 6 ? r.range(-3000000000LL, 5000000000LL) : t < 8 ? r.range(-(1LL << 40), 1LL << 40) : r.range(-100, 100)};
				p.ops.push_back(o);
			}
		} else {
			/* ---- map: compile, (maybe) corrupt, open, look up ---- */
			p.par["kind"] = "map";
			MapSrc src = gen_src(r);
			SimFile f;
			f.path = "/sim/m.tzmap";
			f.data = src.text();
			if (r.chance(1, 6)) {
				/* a few malformed lines, which must not produce entries and must not end the compile:
				 * at the end, at the start, or between two entries */
				static const char *bad[] = {"NOTAB\n", "\tEurope/Berlin\n", "\n", "\n"};
				size_t nb = (size_t)r.range(1, 3);
				for (size_t i = 0; i < nb; i++) {
					auto lines = split_lines_keep(f.data);
					size_t at = r.chance(1, 3) ? lines.size() : r.below(lines.size() + 1);
					std::string d;
					for (size_t k = 0; k < lines.size(); k++) {
						if (k == at)
							d += bad[r.below(4)];
						d += lines[k];
					}
					if (at >= lines.size())
						d += bad[r.below(4)];
					f.data = d;
				}
			}
			p.files.push_back(f);
			unsigned m = (unsigned)r.below(100);
			if (m < 50) {
				p.par["mode"] = "faithful";
				if (r.chance(1, 3))
					p.par["tool"] = "1";
			} else if (m < 62) {
				p.par["mode"] = "writefault";
				Op o;
				o.kind = "sysfault";
				unsigned w = (unsigned)r.below(10);
				if (w < 7) {
					o.s = "write";
					int64_t nth = r.range(1, 3);
					static const int errs[] = {ENOSPC, EIO, -1, -3, -7, -100};
					o.a = {nth, errs[r.below(6)]};
				} else {
					o.s = "creat";
					o.a = {1, r.chance(1, 2) ? ENOSPC : EACCES};
				}
				p.ops.push_back(o);
			} else {
				p.par["mode"] = "corrupt";
				/* faults on the compiled image; positions are resolved modulo the image size by the body */
				size_t nf = (size_t)r.range(1, 3);
				for (size_t i = 0; i < nf; i++) {
					Op o;
					unsigned c = (unsigned)r.below(100);
					if (c < 30) {
						o.kind = "set32";	/* the `off' field */
						static const int64_t vals[] = {0, 1, 2, 3, 4, 5, 12, 16, 0xffff, 0x10000, 0x7fffffff, 0xffffffffLL, 0xfffffffcLL, 0x80000000LL};
						o.a = {4, r.chance(1, 3) ? r.range(0, 4096) : vals[r.below(sizeof(vals) / sizeof(*vals))]};
					} else if (c < 55) {
						o.kind = "trunc";
						o.a = {r.chance(1, 2) ? r.range(0, 40) : -r.range(1, 64)};	/* negative: from the end */
					} else if (c < 70) {
						o.kind = "flip";
						o.a = {-r.range(1, 400), (int64_t)(1 + r.below(255))};
					} else if (c < 80) {
						o.kind = "fill";	/* records without terminating NUL */
						o.a = {-r.range(1, 200), r.range(1, 40), 'A'};
					} else if (c < 88) {
						o.kind = "zero";
						o.a = {-r.range(1, 200), r.range(1, 40)};
					} else if (c < 94) {
						o.kind = "append";
						size_t len = (size_t)r.range(1, 9);
						for (size_t j = 0; j < len; j++)
							o.s += (char)(r.chance(1, 2) ? 'A' + r.below(3) : r.below(256));
					} else {
						o.kind = "replace";
						size_t len = (size_t)r.range(0, 40);
						for (size_t j = 0; j < len; j++)
							o.s += (char)r.below(256);
						if (len >= 4 && r.chance(3, 4))
							o.s.replace(0, 4, "TZm1");
						if (o.s.empty())
							o.a = {0};
					}
					p.ops.push_back(o);
				}
				if (r.chance(1, 8))
					sys_faults(r, p, false);
			}
			/* keys to look up beyond those of the source: the body derives neighbours itself; a few random ones */
			size_t nk = (size_t)r.range(0, 6);
			for (size_t i = 0; i < nk; i++) {
				Op o;
				o.kind = "key";
				o.s = gen_key(r, (int)r.below(3));
				p.ops.push_back(o);
			}
		}
		return p;
	}

	/* ---------------- incarnation bodies ---------------- */
	static int body_zif(const Plan &p)
	{
		Shared *sh = shared();
		std::string img, other;
		fs_get("/sim/zi/Z", img);
		fs_get("/sim/zi/other", other);
		std::vector<Op> faults;
		for (auto &o : p.ops)
			if (is_fault(o))
				faults.push_back(o);
		fs_put("/sim/zi/Z", apply_faults(img, faults, other));
		arm_alloc_faults(true);
		sh->cur_op = -2;	/* in zif_open */
		zif_t z = zif_open("/sim/zi/Z");
		arm_alloc_faults(false);
		blob_append(z ? "opened\n" : "open-failed\n");
		blob_append("fds=" + std::to_string(open_fd_count()) + "\n");
		if (!z)
			return 0;
		int64_t row = 0;
		for (size_t i = 0; i < p.ops.size(); i++) {
			const Op &o = p.ops[i];
			if (o.kind.size() != 1)
				continue;
			int64_t t = o.arg(0);
			sh->cur_op = (int64_t)i;
			int64_t *out = sh->res[row];
			out[0] = out[1] = out[2] = out[3] = 0;
			switch (o.kind[0]) {
			case 'L':
				out[0] = zif_local_time(z, t);
				break;
			case 'U':
				out[0] = zif_utc_time(z, t);
				break;
			case 'T':
				out[0] = zif_find_trans(z, t);
				break;
			case 'R': {
				struct zrng_s g = zif_find_zrng(z, t);
				out[0] = g.prev;
				out[1] = g.next;
				out[2] = g.offs;
				break;
			}
			}
			sh->nres = ++row;
		}
		sh->cur_op = -3;	/* copy + close */
		zif_t c = zif_copy(z);
		if (c) {
			(void)zif_local_time(c, 0);
			zif_close(c);
		}
		zif_close(z);
		sh->cur_op = -1;
		return 0;
	}

	static std::vector<std::string> lookup_keys(const Plan &p, const std::map<std::string, std::string> &src)
	{
		std::vector<std::string> keys;
		size_t budget = 900;
		for (auto &kv : src) {
			if (keys.size() > budget)
				break;
			const std::string &k = kv.first;
			keys.push_back(k);
			if (k.size() > 1)
				keys.push_back(k.substr(0, k.size() - 1));
			if (k.size() > 4)
				keys.push_back(k.substr(0, 4));
			if (k.size() < 255) {
				keys.push_back(k + "A");
				keys.push_back(k + k.back());
			}
			std::string n = k;
			n.back() = (char)(n.back() + 1);
			keys.push_back(n);
			n = k;
			n.back() = (char)(n.back() - 1);
			if (n.back() > ' ')
				keys.push_back(n);
		}
		keys.push_back("");
		keys.push_back("@");
		keys.push_back("zzzzzzzzzzzzzzzzzzzzzzzz");
		keys.push_back(std::string(300, 'A'));
		for (auto &o : p.ops)
			if (o.kind == "key")
				keys.push_back(o.s);
		return keys;
	}

	static int body_map(const Plan &p)
	{
		Shared *sh = shared();
		std::string mode = p.par.count("mode") ? p.par.at("mode") : "faithful";
		std::string srctxt;
		fs_get("/sim/m.tzmap", srctxt);
		auto src = parse_src(srctxt);
		/* 1. the real compiler, against the simulated disk */
		sh->cur_op = -10;
		int rc;
		{
			std::vector<std::string> av = {"tzmapcc", "cc", "-o", "/sim/m.tzmcc", "/sim/m.tzmap"};
			if (mode != "writefault")
				clear_sysfaults();
			rc = call_tool_main(av);
			fflush(NULL);
		}
		std::string img;
		bool have = fs_get("/sim/m.tzmcc", img);
		blob_append("cc rc=" + std::to_string(rc) + " have=" + std::to_string(have) + " size=" + std::to_string(img.size()) + "\n");
		if (mode == "writefault") {
			clear_sysfaults();
			if (!have)
				return 0;
		}
		if (!have)
			return 0;
		/* 2. corrupt the compiled image */
		if (mode == "corrupt") {
			std::vector<Op> faults;
			for (auto o : p.ops) {
				if (!is_fault(o))
					continue;
				/* negative positions count from the end of the image */
				if (!o.a.empty() && o.a[0] < 0 && o.kind != "set32")
					o.a[0] = (int64_t)img.size() + o.a[0] < 0 ? 0 : (int64_t)img.size() + o.a[0];
				faults.push_back(o);
			}
			img = apply_faults(img, faults, srctxt);
			fs_put("/sim/m.tzmcc", img);
			for (auto &o : p.ops)
				if (o.kind == "sysfault")
					set_sysfault(o.s, o.arg(0), (int)o.arg(1));
		}
		/* 3. open and look up */
		sh->cur_op = -11;
		tzmap_t m = tzm_open("/sim/m.tzmcc");
		clear_sysfaults();
		blob_append(m ? "opened\n" : "open-failed\n");
		if (!m)
			return 0;
		auto keys = lookup_keys(p, src);
		for (size_t i = 0; i < keys.size(); i++) {
			sh->cur_op = (int64_t)i;
			const char *z = tzm_find(m, keys[i].c_str());
			std::string val = "(null)";
			if (z) {
				/* use what came back: a pointer outside the image shows up here */
				size_t n = strnlen(z, 300);
				val.assign(z, n);
			}
			blob_append("K " + hexenc(keys[i]) + " " + hexenc(val) + (z ? " 1" : " 0") + "\n");
		}
		sh->cur_op = -12;
		tzm_close(m);
		/* 4. the same image through the tool front ends */
		if (mode == "corrupt") {
			sh->cur_op = -13;
			std::vector<std::string> av = {"tzmapcc", "show", "-f", "/sim/m.tzmcc"};
			int src2 = call_tool_main(av);
			fflush(NULL);
			blob_append("show rc=" + std::to_string(src2) + "\n");
			sh->cur_op = -14;
			std::string spec = "m:" + (src.empty() ? std::string("A") : src.begin()->first);
			zif_t z = dt_io_zone(spec.c_str());
			blob_append(std::string("io_zone ") + (z ? "ok" : "null") + "\n");
			dt_io_clear_zones();
		}
		sh->cur_op = -1;
		return 0;
	}

	Verdict judge(const Plan &p, Stats &st, bool collect) override
	{
		Verdict v;
		std::string kind = p.par.count("kind") ? p.par.at("kind") : "zif";
		std::string mode = p.par.count("mode") ? p.par.at("mode") : "";
		Plan q = p;
		if (kind == "map")
			q.env["TZMAP_DIR"] = "/sim";
		Limits lim;
		lim.cpu_s = 3.0;
		RunResult r = run_plan(q, lim, [&]() { return kind == "zif" ? body_zif(q) : body_map(q); });
		st.add_probes(r);
		st.ops += (uint64_t)r.nres;
		std::string faults;
		for (auto &o : p.ops)
			if (is_fault(o) || o.kind == "sysfault" || o.kind == "allocfault")
				faults += (faults.empty() ? "" : "+") + (o.kind == "sysfault" ? "sys_" + o.s : o.kind);
		v.predicate = "kind_" + kind + (mode.empty() ? "" : " mode_" + mode) + (faults.empty() ? " pristine" : " faulted");
		if (collect) {
			st.distinct_plans.insert(p.hash());
			if (!faults.empty() || kind == "map")
				st.distinct_nontrivial.insert(p.hash());
			st.signatures.insert(hash_str(hash_str(5, kind + mode), faults));
			st.named["plans_" + kind + (mode.empty() ? "" : "_" + mode)]++;
			for (auto &o : p.ops) {
				if (is_fault(o))
					st.named["fault_fired_" + o.kind]++;
			}
			st.named["fault_fired_open"] += r.probes[P_OPEN_FAULT];
			st.named["fault_fired_fstat"] += r.probes[P_FSTAT_FAULT];
			st.named["fault_fired_mmap"] += r.probes[P_MMAP_FAULT];
			st.named["fault_fired_malloc"] += r.probes[P_MALLOC_FAULT];
			st.named["fault_fired_write_error"] += r.probes[P_WRITE_FAULT];
			st.named["fault_fired_write_short"] += r.probes[P_WRITE_SHORT];
			if (r.blob.find("open-failed") != std::string::npos)
				st.named["loader_failed_cleanly"]++;
			if (r.blob.find("opened") != std::string::npos)
				st.named["loader_accepted"]++;
			if (r.blob.find("fds=1") != std::string::npos || r.blob.find("fds=2") != std::string::npos)
				st.named["diag_descriptor_left_open_after_failed_or_finished_load"]++;
			if (st.samples.size() < 4)
				st.samples.push_back(kind + (mode.empty() ? "" : "/" + mode) + " " + (p.par.count("origin") ? p.par.at("origin") : cquote(p.files[0].data, 60)) +
						     " faults=" + (faults.empty() ? "none" : faults));
		}
		/* ---- structural oracle ---- */
		if (r.crashed() || !r.done || r.flags) {
			v.ok = false;
			std::string at;
			int64_t k = r.cur_op;
			if (kind == "zif")
				at = k == -2 ? "zif_open" : k == -3 ? "zif_copy/zif_close" : k >= 0 && (size_t)k < p.ops.size() ? "lookup " + p.ops[(size_t)k].kind + "(" + std::to_string(p.ops[(size_t)k].arg(0)) + ")" : "?";
			else
				at = k == -10 ? "tzmap cc" : k == -11 ? "tzm_open" : k == -12 ? "tzm_close" : k == -13 ? "tzmap show" : k == -14 ? "dt_io_zone(MAP:KEY)" :
				     k >= 0 ? "tzm_find key #" + std::to_string(k) : "?";
			v.predicate += " at_" + (k == -2 ? std::string("zif_open") : k == -10 ? "cc" : k == -11 ? "tzm_open" : k == -13 ? "show" : k == -14 ? "io_zone" : k >= 0 ? (kind == "zif" ? "lookup" : "tzm_find") : "other");
			if (r.hang) {
				v.cls = "files/hang";
				v.detail = at + " does not return (" + (faults.empty() ? "unmodified image" : "after " + faults) + ")";
				if (kind == "map" && k >= 0) {
					/* which key? */
					auto keys = lookup_keys(p, parse_src(p.files[0].data));
					auto src = parse_src(p.files[0].data);
					if ((size_t)k < keys.size()) {
						v.detail += ", key " + cquote(keys[(size_t)k], 40);
						v.predicate += src.count(keys[(size_t)k]) ? " present_key" : " absent_key";
					}
				}
			} else if (r.flags) {
				v.cls = "files/misuse";
				v.detail = at + ": " + r.note;
			} else {
				v.cls = "files/memory";
				v.detail = at + " (" + (faults.empty() ? "unmodified image" : "after " + faults) + "): " + r.status_str() + " " + asan_summary(r.err);
			}
			return v;
		}
		if (kind != "map")
			return v;
		/* ---- map oracles ---- */
		auto src = parse_src(p.files[0].data);
		bool have = r.blob.find(" have=1") != std::string::npos;
		int ccrc = -1;
		{
			size_t i = r.blob.find("cc rc=");
			if (i != std::string::npos)
				ccrc = atoi(r.blob.c_str() + i + 6);
		}
		if (mode == "corrupt")
			return v;	/* after a content fault the values are not judged */
		bool wf_fired = r.probes[P_WRITE_FAULT] || r.probes[P_WRITE_SHORT];
		bool creat_fault = false;
		for (auto &o : p.ops)
			if (o.kind == "sysfault" && o.s == "creat")
				creat_fault = true;
		if (mode == "writefault" && (wf_fired || creat_fault)) {
			if (!have) {
				if (ccrc == 0) {
					v.ok = false;
					v.cls = "files/compile-fault";
					v.detail = "map compiler reports success although its output could not be written";
				}
				return v;
			}
			/* a file is there: it has to be complete, whatever the status says -> strict oracle below */
			v.predicate += " file_left_after_write_fault";
		} else if (!have || ccrc != 0) {
			v.ok = false;
			v.cls = "files/compile";
			v.detail = "tzmap cc fails on a well-formed source (rc " + std::to_string(ccrc) + ")";
			return v;
		}
		if (r.blob.find("open-failed") != std::string::npos) {
			v.ok = false;
			v.cls = mode == "writefault" ? "files/compile-fault" : "files/map-lookup";
			v.detail = mode == "writefault" ? "a partial map file is left behind after a failed write (tzm_open rejects it)" : "tzm_open rejects the map the compiler just wrote";
			return v;
		}
		size_t nkeys = 0;
		for (auto &l : split_lines_keep(r.blob)) {
			if (l.compare(0, 2, "K ") != 0)
				continue;
			size_t a = l.find(' ', 2), b = l.find(' ', a + 1);
			std::string key = hexdec(l.substr(2, a - 2)), val = hexdec(l.substr(a + 1, b - a - 1));
			bool found = l[b + 1] == '1';
			nkeys++;
			auto it = src.find(key);
			if (collect)
				st.named[it != src.end() ? "lookups_present_key" : "lookups_absent_key"]++;
			if (it != src.end() && (!found || val != it->second)) {
				v.ok = false;
				v.cls = mode == "writefault" ? "files/compile-fault" : "files/map-lookup";
				v.predicate += " present_key";
				v.detail = "key " + cquote(key, 40) + " is mapped to " + it->second + " in the source, the compiled map says " + (found ? cquote(val, 40) : "absent");
				return v;
			}
			if (it == src.end() && found) {
				v.ok = false;
				v.cls = mode == "writefault" ? "files/compile-fault" : "files/map-lookup";
				v.predicate += " absent_key";
				v.detail = "key " + cquote(key, 40) + " is not in the source, the compiled map returns " + cquote(val, 40);
				return v;
			}
		}
		/* ---- MAP:KEY through the tool: several specs resolved in ONE process (the zone and map caches of
		 * dt_io_zone are keyed by name) against one process per plain zone name ---- */
		if (p.par.count("tool") && !src.empty()) {
			std::vector<std::pair<std::string, std::string>> ent(src.begin(), src.end());
			/* prefer a pair whose first zone name is a proper prefix of the second one's */
			std::vector<size_t> pick;
			size_t h = (size_t)p.hash();
			for (size_t i = 0; i < ent.size() && pick.empty(); i++)
				for (size_t j = 0; j < ent.size(); j++) {
					const std::string &za = ent[(i + h) % ent.size()].second, &zb = ent[j].second;
					if (za.size() < zb.size() && zb.compare(0, za.size(), za) == 0) {
						pick = {(i + h) % ent.size(), j};
						break;
					}
				}
			if (pick.empty() || (h & 8))
				pick = {h % ent.size(), (h / 7) % ent.size()};
			pick.push_back((h / 131) % ent.size());
			/* a second map whose name extends the first one's: same keys, zones rotated by one entry */
			std::string src2;
			for (size_t i = 0; i < ent.size(); i++)
				src2 += ent[i].first + "\t" + ent[(i + 1) % ent.size()].second + "\n";
			Plan t1;
			t1.engine = p.engine;
			t1.variant = p.variant;
			t1.env["TZMAP_DIR"] = "/sim";
			t1.files = p.files;
			SimFile f2;
			f2.path = "/sim/mm.tzmap";
			f2.data = src2;
			t1.files.push_back(f2);
			std::vector<std::string> specs, plain;
			for (size_t k = 0; k < pick.size(); k++) {
				bool second = k == 2 || ((h >> (4 + k)) & 1);
				specs.push_back((second ? "mm:" : "m:") + ent[pick[k]].first);
				plain.push_back(second ? ent[(pick[k] + 1) % ent.size()].second : ent[pick[k]].second);
			}
			/* now and then specs whose map cannot be opened (no such file, or not a map), the same map name twice:
			 * they must resolve to nothing, whatever was resolved before them */
			std::string badimg;
			if ((h >> 9) & 1) {
				std::string bm = ((h >> 10) & 1) ? "nomap:" : "bad:";
				if (((h >> 16) & 3) == 0) {
					/* a map name that does not fit the path buffer: refused, nothing written */
					static const size_t lens[] = {4000, 4080, 4090, 4100, 4127, 4130, 4200, 5000, 100000};
					bm = std::string(lens[(h >> 18) % 9], 'M') + ":";
				}
				std::vector<std::string> s2 = {specs[0], bm + ent[pick[1 % pick.size()]].first, specs[1], bm + ent[pick[0]].first, bm + ent[pick[0]].first};
				std::vector<std::string> p2 = {plain[0], "", plain[1], "", ""};
				specs = s2;
				plain = p2;
				badimg = std::string("TZm1 this is not a compiled zone map, it only starts like one....", 64);
			}
			/* a map that is refused thirty times over, in a process that may hold twenty descriptors:
			 * a refusal must give back what the attempt took */
			bool refuse_often = ((h >> 12) & 7) == 0;
			if (refuse_often) {
				std::vector<std::string> s2 = {specs[0]}, p2 = {plain[0]};
				for (int i = 0; i < 30; i++) {
					s2.push_back("bad:" + ent[pick[i % pick.size()]].first);
					p2.push_back("");
				}
				s2.push_back(specs[1]);
				p2.push_back(plain[1]);
				specs = s2;
				plain = p2;
				badimg = "pending";
			}
			bool usable = true;
			for (auto &sp : specs)
				if ((sp.size() > 200 && sp[0] != 'M') || sp.find_first_of(" \t\n") != std::string::npos || sp[0] == '-')
					usable = false;
			/* dzone takes a name it cannot open for a date/time and then prints differently: installed zones only */
			for (auto &z : plain) {
				std::string dummy;
				if (z.empty())
					continue;	/* a spec that must not resolve */
				if (z[0] == '/' || !real_file_bytes("/usr/share/zoneinfo/" + z, dummy))
					usable = false;
			}
			/* each map is compiled by its own incarnation of the compiler; the tool run only sees the images */
			auto compile = [&](const std::string &text, std::string &image) {
				Plan c;
				c.engine = p.engine;
				c.variant = p.variant;
				SimFile sf;
				sf.path = "/sim/x.tzmap";
				sf.data = text;
				c.files.push_back(sf);
				RunResult cr = run_plan(c, Limits(), [&]() {
					std::vector<std::string> av = {"tzmapcc", "cc", "-o", "/sim/x.tzmcc", "/sim/x.tzmap"};
					int rc = call_tool_main(av);
					std::string img;
					if (rc == 0 && fs_get("/sim/x.tzmcc", img))
						blob_append(img);
					return rc;
				});
				st.add_probes(cr);
				image = cr.blob;
				return !cr.crashed() && cr.exit_code == 0 && !image.empty();
			};
			std::string img1, img2;
			if (usable && !(compile(p.files[0].data, img1) && compile(src2, img2)))
				usable = false;	/* the compile itself is judged by the faithful mode above */
			if (usable) {
				t1.files.clear();
				SimFile i1, i2;
				i1.path = "/sim/m.tzmcc";
				i1.data = img1;
				i2.path = "/sim/mm.tzmcc";
				i2.data = img2;
				t1.files = {i1, i2};
				if (refuse_often) {
					/* the good image with one damaged octet: the zone name pool no longer ends in NUL
					 * (magic, size and offset stay valid), or the last record no longer does */
					badimg = img1;
					size_t off = badimg.size() >= 16 ? ((size_t)(unsigned char)badimg[4] << 24 | (size_t)(unsigned char)badimg[5] << 16 |
									     (size_t)(unsigned char)badimg[6] << 8 | (size_t)(unsigned char)badimg[7]) : 0;
					if (off && 16 + off <= badimg.size() && ((h >> 15) & 1))
						badimg[16 + off - 1] = 'A';
					else if (badimg.size() > 20)
						badimg[badimg.size() - 4] = 'A';
					t1.par["nofile"] = "20";
				}
				if (!badimg.empty()) {
					SimFile i3;
					i3.path = "/sim/bad.tzmcc";
					i3.data = badimg;
					t1.files.push_back(i3);
				}
				t1.argv = {"dzone"};
				for (auto &sp : specs)
					t1.argv.push_back(sp);
				t1.argv.push_back("2012-07-01T12:00:00");
				RunResult a = run_plan(t1);
				st.add_probes(a);
				auto strip = [](const std::string &o) {
					/* drop the last column (the zone as it was spelled on the command line) */
					std::string res;
					for (auto &l : split_lines_keep(o)) {
						size_t t = l.rfind('\t');
						res += t == std::string::npos ? l : l.substr(0, t) + "\n";
					}
					return res;
				};
				std::string expect;
				for (auto &z : plain) {
					if (z.empty())
						continue;
					Plan t2;
					t2.engine = p.engine;
					t2.variant = p.variant;
					t2.argv = {"dzone", z, "2012-07-01T12:00:00"};
					RunResult b2 = run_plan(t2);
					st.add_probes(b2);
					expect += strip(b2.out);
				}
				if (collect)
					st.named["tool_map_key_resolution"]++;
				if (a.crashed() || strip(a.out) != expect) {
					std::string cmd;
					for (auto &x : t1.argv)
						cmd += x + " ";
					v.ok = false;
					v.cls = a.crashed() ? "files/memory" : "files/map-lookup";
					v.predicate += " tool_level";
					v.detail = cmd + "prints " + cquote(strip(a.out), 120) + " (" + a.status_str() + "), the zones named in the source one by one print " + cquote(expect, 120);
				}
			}
		}
		return v;
	}

	std::vector<Plan> candidates(const Plan &p) override
	{
		std::vector<Plan> out;
		for (auto &vv : chunk_removals(p.ops)) {
			Plan q = p;
			q.ops = vv;
			out.push_back(q);
		}
		if (p.par.count("tool")) {
			Plan q = p;
			q.par.erase("tool");
			out.push_back(q);
		}
		if (p.par.count("kind") && p.par.at("kind") == "map" && !p.files.empty()) {
			auto lines = split_lines_keep(p.files[0].data);
			for (auto &vv : chunk_removals(lines)) {
				if (vv.empty())
					continue;
				Plan q = p;
				q.files[0].data = join(vv);
				out.push_back(q);
			}
			/* shorter keys */
			for (size_t i = 0; i < lines.size() && out.size() < 300; i++) {
				size_t t = lines[i].find('\t');
				if (t != std::string::npos && t > 1) {
					auto w = lines;
					w[i] = lines[i].substr(0, t / 2) + lines[i].substr(t);
					Plan q = p;
					q.files[0].data = join(w);
					/* keep ascending order or the plan is not a valid source any more */
					auto m = parse_src(q.files[0].data);
					std::string prev;
					bool asc = true;
					for (auto &l : split_lines_keep(q.files[0].data)) {
						std::string k = l.substr(0, l.find('\t'));
						if (!prev.empty() && !(prev < k))
							asc = false;
						prev = k;
					}
					if (asc)
						out.push_back(q);
				}
			}
		}
		return out;
	}
};

} /* anon */

Engine *make_files_engine() { return new FilesEngine(); }

} /* namespace sim */
