/* eng_env.cc -- C20: results depend only on the arguments, not on clock, TZ or locale settings
 *
 * (1) configurations: one invocation with fully specified input (or with --base) is executed under
 *     several simulated environments -- clock start and behaviour, TZ, LANG/LC_ALL/LC_TIME -- and must
 *     print the same bytes and exit with the same status; a negative control (missing fields, no --base)
 *     must differ across clocks, otherwise the clock seam is dead and the check is void (exit 2);
 * (2) locale tables: op sequences of setilocale/setflocale/reset with parse and format probes, against
 *     a two-slot model built from the locale file itself; failing setters (absent/truncated file) must
 *     leave the tables as they were;
 * (3) --from-locale A --locale B on the tools: equals parse with A composed with print with B. */
#include "engine.h"
#include "models.h"
#include "invgen.h"
#include <string.h>
#include <errno.h>
#include <algorithm>

extern "C" {
int glue_parse(const char *str, const char *fmt, char *out, size_t osz);
int glue_format(const char *iso, const char *fmt, char *out, size_t osz);
int glue_setilocale(const char *name);
int glue_setflocale(const char *name);
}

namespace sim {
void blob_append(const std::string &s);
void set_sysfault(const std::string &kind, int64_t nth, int err);
void clear_sysfaults(void);
void fs_put(const std::string &path, const std::string &data);
bool fs_get(const std::string &path, std::string &out);

namespace {

/* ---------------- the locale file as a model ---------------- */
struct Loc {
	std::string name;
	std::vector<std::string> awd, lwd, amo, lmo;	/* Mon..Sun, Jan..Dec */
};
std::vector<std::string> tabsplit(const std::string &l)
{
	std::vector<std::string> v;
	size_t a = 0;
	for (;;) {
		size_t e = l.find('\t', a);
		if (e == std::string::npos) {
			v.push_back(l.substr(a));
			break;
		}
		v.push_back(l.substr(a, e - a));
		a = e + 1;
	}
	return v;
}
const std::string &locale_text()
{
	static std::string t;
	static bool done;
	if (!done) {
		done = true;
		const char *repo = getenv("VERIF_REPO");
		std::string path = std::string(repo ? repo : "/repo") + "/data/locale";
		real_file_bytes(path, t);
	}
	return t;
}
std::vector<Loc> parse_locales(const std::string &txt)
{
	std::vector<Loc> v;
	auto lines = split_lines_keep(txt);
	for (size_t i = 0; i + 4 < lines.size(); i += 5) {
		Loc l;
		auto strip = [](std::string s) {
			if (!s.empty() && s.back() == '\n')
				s.pop_back();
			return s;
		};
		l.name = strip(lines[i]);
		l.awd = tabsplit(strip(lines[i + 1]));
		l.lwd = tabsplit(strip(lines[i + 2]));
		l.amo = tabsplit(strip(lines[i + 3]));
		l.lmo = tabsplit(strip(lines[i + 4]));
		if (l.awd.size() == 7 && l.lwd.size() == 7 && l.amo.size() == 12 && l.lmo.size() == 12)
			v.push_back(l);
	}
	return v;
}
const std::vector<Loc> &locales()
{
	static std::vector<Loc> v;
	static bool done;
	if (!done) {
		done = true;
		v = parse_locales(locale_text());
	}
	return v;
}
Loc english()
{
	Loc l;
	l.name = "";
	l.awd = {"Mon", "Tue", "Wed", "Thu", "Fri", "Sat", "Sun"};
	l.lwd = {"Monday", "Tuesday", "Wednesday", "Thursday", "Friday", "Saturday", "Sunday"};
	l.amo = {"Jan", "Feb", "Mar", "Apr", "May", "Jun", "Jul", "Aug", "Sep", "Oct", "Nov", "Dec"};
	l.lmo = {"January", "February", "March", "April", "May", "June", "July", "August", "September", "October", "November", "December"};
	return l;
}
const Loc *find_loc(const std::string &n)
{
	for (auto &l : locales())
		if (l.name == n)
			return &l;
	return nullptr;
}
/* a locale whose month names can be told apart by a parser: no name is a prefix of another, no digits */
bool parse_friendly(const Loc &l, bool longnames)
{
	const auto &v = longnames ? l.lmo : l.amo;
	for (size_t i = 0; i < v.size(); i++) {
		if (v[i].empty())
			return false;
		for (char c : v[i])
			if ((c >= '0' && c <= '9') || c == ' ' || c == '.')
				return false;
		for (size_t j = 0; j < v.size(); j++)
			if (i != j && v[j].compare(0, v[i].size(), v[i]) == 0)
				return false;
	}
	return true;
}

const char *const LOCFILE = "/sim/share/locale";

/* ---------------- environments ---------------- */
struct EnvSpec {
	Clock clock;
	std::map<std::string, std::string> env;
	std::string label;
};
const int64_t clock_starts[] = {
	951782399,	/* 2000-02-28T23:59:59 */
	946684799,	/* 1999-12-31T23:59:59 */
	946684800,
	2147483647,	/* 2038-01-19T03:14:07 */
	2147483648LL,
	1483228799,	/* 2016-12-31T23:59:59, leap second day */
	1341100799,	/* 2012-06-30T23:59:59 */
	1332637200,	/* 2012-03-25T01:00:00 DST switch in Europe */
	1352008800,	/* 2012-11-04T06:00:00 DST switch in the US */
	86399, 1, 4102444800LL /* 2100-01-01 */, 4133980800LL /* 2100-12-31 */, 7258118400LL /* 2200 */, 1330559999 /* 2012-02-29T23:59:59 */,
	1709251199,	/* 2024-02-29T23:59:59 */
};
const char *const tz_values[] = {"UTC", "Asia/Tokyo", "America/New_York", "Europe/Berlin", "Australia/Lord_Howe", "Pacific/Kiritimati",
				 ":/usr/share/zoneinfo/Asia/Kolkata", "XYZ-14:30", "garbage/zone", ""};
const char *const lang_values[] = {"C", "POSIX", "de_DE.UTF-8", "tr_TR", "ja_JP.eucJP", "fr_FR@euro", "garbage", "en_US.UTF-8", "ru_RU.KOI8-R"};

EnvSpec baseline_env()
{
	EnvSpec e;
	e.clock.start = 1000000000;
	e.label = "baseline";
	return e;
}

std::string fmt_date(int y, int m, int d) { char b[32]; snprintf(b, sizeof(b), "%04d-%02d-%02d", y, m, d); return b; }
std::string fmt_dt(int y, int m, int d, int H, int M, int S) { char b[40]; snprintf(b, sizeof(b), "%04d-%02d-%02dT%02d:%02d:%02d", y, m, d, H, M, S); return b; }

struct EnvEngine : Engine {
	std::map<std::string, std::string> refmemo;
	const char *name() const override { return "env"; }
	const char *property() const override { return "C20"; }

	static std::string rdate(Rng &r)
	{
		int y = (int)r.range(1900, 2090), m = (int)r.range(1, 12);
		return fmt_date(y, m, (int)r.range(1, model::mdays(y, m)));
	}
	static std::string rdt(Rng &r)
	{
		int y = (int)r.range(1900, 2090), m = (int)r.range(1, 12);
		return fmt_dt(y, m, (int)r.range(1, model::mdays(y, m)), (int)r.below(24), (int)r.below(60), (int)r.below(60));
	}
	static std::string rtime(Rng &r)
	{
		char b[16];
		snprintf(b, sizeof(b), "%02d:%02d:%02d", (int)r.below(24), (int)r.below(60), (int)r.below(60));
		return b;
	}

	/* one invocation whose result must not depend on the environment */
	static void gen_invocation(Rng &r, Plan &p)
	{
		static const char *zs[] = {"Europe/Berlin", "America/New_York", "Asia/Gaza", "Asia/Kathmandu", "Australia/Lord_Howe", "Pacific/Apia"};
		static const char *ofmts[] = {"%F", "%FT%T", "%d %b %Y", "%a, %d %B %Y", "%A %j %G-W%V-%u", "%s", "%Y-%m-%c-%w", "%Y-%q %U %W %C", "%d.%m.%Y %H:%M:%S"};
		static const char *locs[] = {"de_DE", "fr_FR", "it_IT", "tr_TR", "ja_JP", "ru_RU", "fo_FO", "xh_ZA"};
		unsigned k = (unsigned)r.below(100);
		auto &a = p.argv;
		if (r.chance(3, 10)) {
			/* ---- from the shared grammar: inputs that determine every field, or --base ---- */
			inv::GenOpt go;
			go.want_full = true;
			go.allow_sed = true;
			go.no_junk = true;	/* a malformed value such as 24:00:00 is a bare time: with a zone option its date comes from the clock */
			inv::Inv iv = inv::rand_inv(r, go);
			a = inv::inv_argv(iv);
			size_t n = (size_t)r.range(1, 4);
			/* values: no junk, nothing the tool could take for an option */
			std::vector<std::string> vals;
			for (size_t i = 0; i < n * 3 && vals.size() < n; i++) {
				std::string v = inv::inv_value(r, iv);
				if (v.empty() || v[0] == '-' || v == "foo" || v == "T" || v == " " || v == "99" || v == "1e9")
					continue;
				vals.push_back(iv.textlines ? inv::text_around(r, v) : v);
			}
			if (vals.empty())
				vals.push_back("2012-03-04T05:06:07");
			if (iv.mode == 0)
				a.insert(a.end(), vals.begin(), vals.end());
			else {
				p.has_input = true;
				for (auto &v : vals)
					p.input += v + "\n";
			}
			if (iv.has_base)
				p.par["with_base"] = "1";
			p.par["grammar"] = "1";
			return;
		}
		if (r.chance(1, 16)) {
			/* ---- values that begin like one of the special keywords but are ordinary dates in the given format ---- */
			static const char *kw[] = {"now", "today", "date", "time", "tomo", "tomorrow", "yday", "yesterday", "Now", "TODAY"};
			static const char *body[] = {" %Y-%m-%d %H%M", " %F", "%Y%m%d", " %d %b %Y %H:%M:%S", "-%FT%T", " %s"};
			static const char *pad[] = {"", "x", "--", "end", "    ", "#####", "abcdef", "1234567", "........", "/////////", "0123456789", "ABCDEFGHIJK",
						    "qqqqqqqqqqqq", "zzzzzzzzzzzzz", "______________", "yyyyyyyyyyyyyyy"};
			std::string f = std::string(kw[r.below(10)]) + body[r.below(6)];
			/* the literal tail walks the total length through all residues */
			std::string tail = pad[r.below(16)];
			if (!tail.empty() && isdigit((unsigned char)tail[0]) && isdigit((unsigned char)f.back()))
				tail = "_" + tail;
			f += tail.empty() ? "" : " " + tail;
			inv::Civ c1 = inv::rand_civ(r, 1971, 2090), c2 = inv::rand_civ(r, 1971, 2090);
			std::string v1 = inv::fmt_value(f, c1), v2 = inv::fmt_value(f, c2);
			switch (r.below(5)) {
			case 0:
				a = {"dconv", "-i", f, "-f", "%FT%T", v1, v2};
				break;
			case 1:
				a = {"dtest", "-i", f, v1, r.chance(1, 2) ? "--ot" : "--cmp", v2};
				break;
			case 2:
				a = {"dround", "-i", f, "-f", "%F", v1, "Mon"};
				break;
			case 3:
				a = {"dadd", "-i", f, "-f", "%FT%T", v1, "+1d"};
				break;
			default:
				a = {"ddiff", "-i", f, v1, v2, "-f", "%d"};
				break;
			}
			p.par["keyword_prefix"] = "1";
			return;
		}
		if (r.chance(1, 25)) {
			/* dzone in transition mode with a bare time: the date comes from --base */
			a = {"dzone", r.chance(1, 2) ? "--next" : "--prev", zs[r.below(6)], rtime(r), "--base", inv::rand_base(r)};
			if (r.chance(1, 3))
				a.insert(a.begin() + 1, "--prev");
			p.par["with_base"] = "1";
			return;
		}
		if (k < 14) {
			a = {"dconv", "-f", ofmts[r.below(9)]};
			size_t n = (size_t)r.range(1, 4);
			for (size_t i = 0; i < n; i++)
				a.push_back(r.chance(1, 2) ? rdate(r) : rdt(r));
		} else if (k < 20) {
			int y = (int)r.range(1900, 2090), m = (int)r.range(1, 12), d = (int)r.range(1, model::mdays(y, m));
			char b[32];
			snprintf(b, sizeof(b), "%02d/%02d/%04d", d, m, y);
			a = {"dconv", "-i", "%d/%m/%Y", "-f", ofmts[r.below(9)], b};
		} else if (k < 28) {
			a = {"dconv", "--zone", zs[r.below(6)], "-f", "%FT%T%Z", rdt(r), rdt(r)};
		} else if (k < 34) {
			a = {"dconv", "--from-zone", zs[r.below(6)], "--zone", zs[r.below(6)], "-f", "%FT%T%Z", rdt(r)};
		} else if (k < 40) {
			static const char *du[] = {"+1d", "-1mo", "+1y", "+3w", "+36h", "-90m", "+5bd", "+1mo1d"};
			a = {"dadd", r.chance(1, 2) ? rdate(r) : rdt(r), du[r.below(8)]};
			if (r.chance(1, 2)) {
				a.push_back("-f");
				a.push_back(ofmts[r.below(9)]);
			}
		} else if (k < 46) {
			static const char *du[] = {"+1d", "-1mo", "+1y", "+36h"};
			a = {"dadd", du[r.below(4)]};
			p.has_input = true;
			size_t n = (size_t)r.range(1, 5);
			for (size_t i = 0; i < n; i++)
				p.input += (r.chance(1, 2) ? rdate(r) : rdt(r)) + "\n";
		} else if (k < 53) {
			static const char *df[] = {"%d", "%m mo %d d", "%w w %d d", "%S", "%y y %m mo", "%dd %Hh %Mm %Ss", "%b"};
			bool t = r.chance(1, 2);
			a = {"ddiff", t ? rdt(r) : rdate(r), t ? rdt(r) : rdate(r), "-f", df[r.below(t ? 6 : 7)]};
		} else if (k < 59) {
			static const char *sp[] = {"Mon", "Sat", "1", "31", "Feb", "1h", "30m", "/1d", "Dec"};
			a = {"dround", rdt(r), sp[r.below(9)]};
		} else if (k < 65) {
			int y = (int)r.range(1900, 2090), m = (int)r.range(1, 12), d = (int)r.range(1, model::mdays(y, m));
			int64_t days = model::days_from_civil(y, (unsigned)m, (unsigned)d) + r.range(0, 40);
			int64_t y2;
			unsigned m2, d2;
			model::civil_from_days(days, y2, m2, d2);
			a = {"dseq", fmt_date(y, m, d)};
			if (r.chance(1, 2))
				a.push_back(r.chance(1, 2) ? "1w" : "2d");
			a.push_back(fmt_date((int)y2, (int)m2, (int)d2));
			if (r.chance(1, 2)) {
				a.push_back("-f");
				a.push_back(ofmts[r.below(9)]);
			}
		} else if (k < 70) {
			static const char *ops[] = {"--gt", "--lt", "--eq", "--ne", "--ge", "--le", "--cmp"};
			bool t = r.chance(1, 2);
			a = {"dtest", t ? rdt(r) : rdate(r), ops[r.below(7)], t ? rdt(r) : rdate(r)};
		} else if (k < 75) {
			a = {"dgrep", ">=" + rdate(r)};
			p.has_input = true;
			size_t n = (size_t)r.range(1, 5);
			for (size_t i = 0; i < n; i++)
				p.input += "x " + rdate(r) + " y\n";
		} else if (k < 80) {
			a = {"dzone", zs[r.below(6)], rdt(r)};
			if (r.chance(1, 2))
				a.insert(a.begin() + 1, r.chance(1, 2) ? "--next" : "--prev");
		} else if (k < 84) {
			a = {"dconv", rtime(r), "-f", "%H:%M:%S %I %p"};
		} else if (k < 87) {
			a = {"dadd", rtime(r), r.chance(1, 2) ? "+1h" : "-45m"};
		} else if (k < 92) {
			/* names change only through --locale / --from-locale */
			a = {"dconv", "--locale", locs[r.below(8)], "-f", "%a %d %b %Y | %A %B", rdate(r)};
			p.par["needs_locale_file"] = "1";
		} else {
			/* unspecified fields are determined by --base alone: every tool that takes --base */
			std::string base = r.chance(1, 3) ? inv::rand_base(r) : r.chance(1, 2) ? rdate(r) : rdt(r);
			unsigned b = (unsigned)r.below(14);
			int m = (int)r.range(1, 12), d = (int)r.range(1, 28), m2 = (int)r.range(1, 12), d2 = (int)r.range(1, 28);
			char v[32], v2[32];
			snprintf(v, sizeof(v), "%02d-%02d", m, d);
			snprintf(v2, sizeof(v2), "%02d-%02d", m2, d2);
			switch (b) {
			case 0:
				snprintf(v, sizeof(v), "%02d %s", d, english().amo[m - 1].c_str());
				a = {"dconv", "--base", base, "-i", "%d %b", "-f", "%F %a", v};
				break;
			case 1:
				a = {"dconv", "--base", base, "-i", "%m-%d", "-f", "%FT%T", v};
				break;
			case 2:
				snprintf(v, sizeof(v), "%02d/%02d/%02d", d, m, (int)r.below(100));
				a = {"dconv", "--base", base, "-i", "%d/%m/%y", "-f", "%F", v};
				break;
			case 3:
				a = {"dconv", "--base", base, "--zone", zs[r.below(6)], "-f", "%T%Z", rtime(r)};
				break;
			case 4:
				snprintf(v, sizeof(v), "%02d", d);
				a = {"dadd", "--base", base, "-i", "%d", "-f", "%F", v, "+1mo"};
				break;
			case 5: {
				/* the expression and the lines both leave the year to the base */
				snprintf(v, sizeof(v), "<%s %02d", english().amo[m - 1].c_str(), d);
				a = {"dgrep", "--base", base, "-i", "%b %d", v};
				p.has_input = true;
				for (int i = 0; i < 4; i++) {
					char l[48];
					snprintf(l, sizeof(l), "%s %02d\n", english().amo[r.below(12)].c_str(), (int)r.range(1, 28));
					p.input += l;
				}
				break;
			}
			case 6:
				/* leading time fields left to the base */
				snprintf(v, sizeof(v), "%02d:%02d", (int)r.below(60), (int)r.below(60));
				a = {"dconv", "--base", base, "-i", "%M:%S", "-f", "%FT%T", v};
				break;
			case 7:
				snprintf(v, sizeof(v), "%02d", (int)r.below(60));
				a = {"dconv", "--base", base, "-i", "%S", "-f", "%T", v};
				break;
			case 8:
				a = {"ddiff", "--base", base, "-i", "%m-%d", v, v2, "-f", "%d"};
				break;
			case 9:
				snprintf(v, sizeof(v), "%02d/%02d/%02d", d, m, (int)r.below(100));
				snprintf(v2, sizeof(v2), "%02d/%02d/%02d", d2, m2, (int)r.below(100));
				a = {"ddiff", "--base", base, "-i", "%d/%m/%y", v, v2, "-f", "%d"};
				break;
			case 10:
				a = {"dround", "--base", base, "-i", "%m-%d", "-f", "%F", v, "Mon"};
				break;
			case 11:
				snprintf(v2, sizeof(v2), "%02d-%02d", m, d + 3 > 28 ? 28 : d + 3);
				a = {"dseq", "--base", base, "-i", "%m-%d", "-f", "%F", v, v2};
				break;
			case 12:
				a = {"dtest", "--base", base, "-i", "%m-%d", v, "--lt", v2};
				break;
			default:
				p.has_input = true;
				p.input = std::string(v) + "\n" + v2 + "\n";
				a = {"dadd", "--base", base, "-i", "%m-%d", "-f", "%F", "+1d"};
				break;
			}
			p.par["with_base"] = "1";
		}
	}

	static EnvSpec gen_env(Rng &r, int dim)
	{
		/* dim: 1 clock only, 2 TZ only, 3 locale only, 4 everything */
		EnvSpec e = baseline_env();
		if (dim == 1 || dim == 4) {
			e.clock.start = clock_starts[r.below(sizeof(clock_starts) / sizeof(*clock_starts))];
			if (r.chance(1, 4))
				e.clock.start += r.range(-86400 * 400, 86400 * 400);
			unsigned b = (unsigned)r.below(10);
			if (b < 3)
				e.clock.step_us = 0;
			else if (b < 5)
				e.clock.step_us = 1;
			else if (b < 7)
				e.clock.step_us = 86400LL * 1000000;		/* a day per reading */
			else if (b < 8)
				e.clock.jumps.push_back({1, e.clock.start - 31536000});	/* a year back at the second reading */
			else if (b < 9)
				e.clock.per_read_s = 43200;
			else
				e.clock.fail = 1;
			e.label = "clock";
		}
		if (dim == 2 || dim == 4) {
			e.env["TZ"] = tz_values[r.below(sizeof(tz_values) / sizeof(*tz_values))];
			e.label += "+TZ";
		}
		if (dim == 3 || dim == 4) {
			static const char *vars[] = {"LANG", "LC_ALL", "LC_TIME"};
			size_t n = (size_t)r.range(1, 3);
			for (size_t i = 0; i < n; i++)
				e.env[vars[r.below(3)]] = lang_values[r.below(sizeof(lang_values) / sizeof(*lang_values))];
			e.label += "+LC";
		}
		return e;
	}

	static void put_env(Plan &p, const std::string &pfx, const EnvSpec &e)
	{
		p.par[pfx + "start"] = std::to_string(e.clock.start);
		p.par[pfx + "step_us"] = std::to_string(e.clock.step_us);
		p.par[pfx + "fail"] = std::to_string(e.clock.fail);
		p.par[pfx + "per_read_s"] = std::to_string(e.clock.per_read_s);
		if (!e.clock.jumps.empty())
			p.par[pfx + "jump"] = std::to_string(e.clock.jumps[0].second);
		for (auto &kv : e.env)
			p.par[pfx + "env_" + kv.first] = kv.second;
		p.par[pfx + "label"] = e.label;
	}
	static EnvSpec get_env(const Plan &p, const std::string &pfx)
	{
		EnvSpec e;
		e.clock.start = p.ipar((pfx + "start").c_str(), 1000000000);
		e.clock.step_us = p.ipar((pfx + "step_us").c_str(), 0);
		e.clock.fail = (int)p.ipar((pfx + "fail").c_str(), 0);
		e.clock.per_read_s = p.ipar((pfx + "per_read_s").c_str(), 0);
		if (p.par.count(pfx + "jump"))
			e.clock.jumps.push_back({1, p.ipar((pfx + "jump").c_str())});
		for (auto &kv : p.par)
			if (kv.first.compare(0, pfx.size() + 4, pfx + "env_") == 0)
				e.env[kv.first.substr(pfx.size() + 4)] = kv.second;
		e.label = p.par.count(pfx + "label") ? p.par.at(pfx + "label") : "";
		return e;
	}

	Plan generate(Rng &r, uint64_t idx, const Config &cfg) override
	{
		(void)idx;
		(void)cfg;
		Plan p;
		unsigned k = (unsigned)r.below(100);
		if (k < 60) {
			p.par["kind"] = "config";
			gen_invocation(r, p);
			int nenv = (int)r.range(3, 5);
			p.par["nenv"] = std::to_string(nenv);
			for (int i = 0; i < nenv; i++)
				put_env(p, "e" + std::to_string(i) + "_", gen_env(r, i < 3 ? i + 1 : 4));
		} else if (k < 64) {
			/* ---- input that does consult the clock: whatever it reads there, the tool has to come back ---- */
			p.par["kind"] = "clockuse";
			unsigned c = (unsigned)r.below(6);
			char v[40];
			int m = (int)r.range(1, 12), d = (int)r.range(1, 28);
			switch (c) {
			case 0:
				snprintf(v, sizeof(v), "%02d %s", d, english().amo[m - 1].c_str());
				p.argv = {"dconv", "-i", "%d %b", "-f", "%F", v};
				break;
			case 1:
				p.argv = {"dconv", "--zone", "Europe/Berlin", "-f", "%T%Z", rtime(r)};
				break;
			case 2:
				snprintf(v, sizeof(v), "%02d/%02d/%02d", d, m, (int)r.below(100));
				p.argv = {"dconv", "-i", "%d/%m/%y", "-f", "%F", v};
				break;
			case 3:
				p.argv = {"dadd", rtime(r), "+90m", "--zone", "America/New_York"};
				break;
			case 4:
				p.argv = {"dround", rtime(r), "1h"};
				p.argv.insert(p.argv.begin() + 1, {"--from-zone", "Asia/Tokyo"});
				break;
			default:
				p.argv = {"dgrep", "-i", "%b %d", std::string("<") + english().amo[m - 1] + " 15"};
				p.has_input = true;
				p.input = "Jan 01\nJul 04\nDec 31\n";
				break;
			}
			int nenv = 3;
			p.par["nenv"] = std::to_string(nenv);
			for (int i = 0; i < nenv; i++)
				put_env(p, "e" + std::to_string(i) + "_", gen_env(r, i == 2 ? 4 : 1));
		} else if (k < 70) {
			/* ---- each locale option affects its own direction only ---- */
			p.par["kind"] = "direction";
			const auto &L = locales();
			static const char *tools[] = {"dconv", "dadd", "dround"};
			p.par["tool"] = tools[r.below(3)];
			p.par["L"] = L.empty() ? "de_DE" : L[r.below(L.size())].name;
			p.par["side"] = r.chance(1, 2) ? "locale" : "from_locale";
			p.par["mode"] = std::to_string(r.below(3));	/* 0 args, 1 stdin lines, 2 sed mode */
			p.par["fmt"] = std::to_string(r.below(4));
			size_t n = (size_t)r.range(1, 4);
			for (size_t i = 0; i < n; i++) {
				Op o;
				o.kind = "v";
				o.a = {r.range(1990, 2030), r.range(1, 12), r.range(1, 28)};
				p.ops.push_back(o);
			}
		} else if (k < 86) {
			/* ---- locale setter op sequence ---- */
			p.par["kind"] = "setters";
			const auto &L = locales();
			size_t nops = (size_t)r.range(2, 24);
			for (size_t i = 0; i < nops; i++) {
				Op o;
				unsigned c = (unsigned)r.below(100);
				if (c < 18) {
					o.kind = "il";
					o.s = L.empty() ? "" : L[r.below(L.size())].name;
				} else if (c < 36) {
					o.kind = "fl";
					o.s = L.empty() ? "" : L[r.below(L.size())].name;
				} else if (c < 42) {
					o.kind = "il";	/* reset */
				} else if (c < 48) {
					o.kind = "fl";
				} else if (c < 54) {
					/* a setter that must fail: unknown locale, or the file unreadable */
					o.kind = r.chance(1, 2) ? "il" : "fl";
					unsigned f = (unsigned)r.below(5);
					if (f == 0)
						o.s = "zz_ZZ";
					else if (f <= 2) {
						o.s = L.empty() ? "xx" : L[r.below(L.size())].name;
						o.a = {f == 1 ? ENOENT : EIO};	/* open / fstat fails */
					} else {
						/* the file ends inside this locale's block (torn write, truncated copy) */
						o.s = L.empty() ? "xx" : L[r.below(L.size())].name;
						o.a = {-1, r.range(0, 400)};
					}
				} else if (c < 78) {
					o.kind = "P";	/* parse probe: which names are used is decided at judge time from the model */
					o.a = {r.range(1, 12), r.range(1, 28), r.range(1990, 2030), (int64_t)r.below(4)};
				} else {
					o.kind = "F";
					o.a = {r.range(1, 12), r.range(1, 28), r.range(1990, 2030)};
				}
				p.ops.push_back(o);
			}
		} else {
			/* ---- --from-locale A --locale B on a tool ---- */
			p.par["kind"] = "pair";
			const auto &L = locales();
			if (L.empty()) {
				p.par["kind"] = "config";
				gen_invocation(r, p);
				p.par["nenv"] = "0";
				return p;
			}
			static const char *tools[] = {"dconv", "dadd", "dround"};
			p.par["tool"] = tools[r.below(3)];
			/* A must be parseable without ambiguity */
			const Loc *A = nullptr;
			for (int t = 0; t < 50 && !A; t++) {
				const Loc &c = L[r.below(L.size())];
				if (parse_friendly(c, false) && parse_friendly(c, true))
					A = &c;
			}
			if (!A)
				A = find_loc("de_DE") ? find_loc("de_DE") : &L[0];
			p.par["A"] = A->name;
			/* now and then the same locale in both directions: the second lookup must find it again */
			p.par["B"] = r.chance(1, 6) ? A->name : L[r.below(L.size())].name;
			p.par["y"] = std::to_string(r.range(1990, 2030));
			p.par["m"] = std::to_string(r.range(1, 12));
			p.par["d"] = std::to_string(r.range(1, 28));
			p.par["long"] = std::to_string(r.below(2));
			p.par["order"] = std::to_string(r.below(2));	/* which option comes first */
		}
		return p;
	}

	/* negative controls first */
	/* thorough: after the controls, every ordered pair of shipped locales as (--from-locale, --locale) for dconv */
	size_t fixed_count(const Config &cfg) override { return 4 + (cfg.tier == "thorough" ? locales().size() * locales().size() : 0); }
	Plan fixed_plan(size_t i, const Config &) override
	{
		Plan p;
		if (i >= 4) {
			size_t n = locales().size(), k = i - 4;
			p.par["kind"] = "pair";
			p.par["tool"] = "dconv";
			p.par["A"] = locales()[k / n].name;
			p.par["B"] = locales()[k % n].name;
			p.par["y"] = std::to_string(1990 + k % 40);
			p.par["m"] = std::to_string(1 + k % 12);
			p.par["d"] = std::to_string(1 + k % 28);
			p.par["long"] = std::to_string((k / 7) % 2);
			p.par["order"] = std::to_string((k / 3) % 2);
			return p;
		}
		p.par["kind"] = "control";
		switch (i % 4) {
		case 0:
			p.argv = {"dconv", "-i", "%d %b", "-f", "%F", "04 Mar"};
			break;
		case 1:
			p.argv = {"dconv", "-i", "%m-%d", "-f", "%F", "03-04"};
			break;
		case 2:
			p.argv = {"dadd", "-i", "%d", "-f", "%F", "04", "+1d"};
			break;
		default:
			p.argv = {"dconv", "-i", "%d/%m/%y", "-f", "%F", "04/03/68"};	/* century window follows the clock */
			break;
		}
		EnvSpec a = baseline_env(), b = baseline_env();
		a.clock.start = 951782399;	/* 2000 */
		b.clock.start = 1709251199;	/* 2024 */
		if (i % 4 == 3)
			b.clock.start = 3500000000LL;	/* 2080 */
		put_env(p, "e0_", a);
		put_env(p, "e1_", b);
		p.par["nenv"] = "2";
		return p;
	}

	static RunResult run_under(const Plan &p, const EnvSpec &e, Stats &st, bool with_locale_file)
	{
		Plan q;
		q.engine = p.engine;
		q.variant = p.variant;
		q.argv = p.argv;
		q.has_input = p.has_input;
		q.input = p.input;
		q.files = p.files;
		q.clock = e.clock;
		q.env = e.env;
		if (with_locale_file) {
			q.env["LOCALE_FILE"] = LOCFILE;
			SimFile f;
			f.path = LOCFILE;
			f.data = locale_text();
			q.files.push_back(f);
		}
		RunResult r = run_plan(q);
		st.add_probes(r);
		st.clock_starts.insert(e.clock.start);
		st.sim_seconds += (int64_t)r.probes[P_CLOCK_READS] * (e.clock.step_us / 1000000) + (int64_t)r.probes[P_READS] * e.clock.per_read_s;
		return r;
	}

	static std::string argv_str(const std::vector<std::string> &a)
	{
		std::string s;
		for (auto &x : a)
			s += (s.empty() ? "" : " ") + (x.find(' ') != std::string::npos || x.empty() ? "'" + x + "'" : x);
		return s;
	}
	static std::string env_str(const EnvSpec &e)
	{
		std::string s = "clock=" + std::to_string(e.clock.start) + (e.clock.fail ? "(fails)" : "") + (e.clock.step_us ? " step=" + std::to_string(e.clock.step_us) + "us" : "");
		for (auto &kv : e.env)
			s += " " + kv.first + "=" + kv.second;
		return s;
	}

	Verdict judge_config(const Plan &p, Stats &st, bool collect, bool control)
	{
		Verdict v;
		int nenv = (int)p.ipar("nenv", 0);
		bool lf = p.par.count("needs_locale_file") != 0;
		EnvSpec base = baseline_env();
		std::vector<RunResult> rs;
		std::vector<EnvSpec> es;
		if (!control) {
			es.push_back(base);
			rs.push_back(run_under(p, base, st, lf));
		}
		for (int i = 0; i < nenv; i++) {
			es.push_back(get_env(p, "e" + std::to_string(i) + "_"));
			rs.push_back(run_under(p, es.back(), st, lf));
		}
		if (collect) {
			st.distinct_plans.insert(p.hash());
			if (es.size() >= 2)
				st.distinct_nontrivial.insert(p.hash());
			uint64_t sig = hash_str(9, p.argv.empty() ? "" : p.argv[0]);
			for (auto &e : es)
				sig = hash_str(hash_mix(sig, (uint64_t)(e.clock.start / 86400 / 365)), e.label);
			st.signatures.insert(sig);
			if (!(p.par.count("kind") && p.par.at("kind") == "clockuse"))
				st.named[control ? "negative_controls" : p.par.count("with_base") ? "invocations_with_base" : "invocations_fully_specified"]++;
			st.named["environments"] += es.size();
			for (auto &r : rs) {
				st.named["fault_fired_clock_failure"] += r.probes[P_CLOCK_FAIL];
				st.named["reach_clock_read_by_tool"] += r.probes[P_CLOCK_READS] ? 1 : 0;
				st.named["reach_clock_jump_between_reads"] += r.probes[P_CLOCK_JUMP];
				st.named["probe_libc_time_facility_touched"] += r.probes[P_LIBC_TIME];
				st.named["probe_libc_locale_facility_touched"] += r.probes[P_LIBC_LOCALE];
			}
			if (st.samples.size() < 4 && !control)
				st.samples.push_back(argv_str(p.argv) + "  under {" + env_str(es.back()) + "} vs baseline");
		}
		for (size_t i = 0; i < rs.size(); i++) {
			if (rs[i].crashed() || rs[i].flags) {
				v.ok = false;
				v.cls = rs[i].hang ? "env/hang" : "env/memory";
				v.predicate = "env_" + es[i].label;
				v.detail = argv_str(p.argv) + " under {" + env_str(es[i]) + "}: " + rs[i].status_str() + " " + rs[i].note + " " + asan_summary(rs[i].err);
				return v;
			}
		}
		if (p.par.count("kind") && p.par.at("kind") == "clockuse") {
			if (collect)
				st.named["clock_consulting_invocations"]++;
			return v;	/* termination and memory safety only: the value legitimately follows the clock */
		}
		if (control) {
			if (rs.size() == 2 && rs[0].out == rs[1].out) {
				v.ok = false;
				v.harness = true;
				v.detail = "negative control: " + argv_str(p.argv) + " prints " + cquote(rs[0].out, 40) + " under clocks in different years -- the clock seam is dead";
			}
			return v;
		}
		for (size_t i = 1; i < rs.size(); i++) {
			if (rs[i].out != rs[0].out || rs[i].exit_code != rs[0].exit_code) {
				v.ok = false;
				const std::string &lb = es[i].label;
				v.cls = lb == "clock" ? "env/clock-dependence" : lb == "baseline+TZ" ? "env/tz-dependence" : lb == "baseline+LC" ? "env/locale-dependence" : "env/environment-dependence";
				v.predicate = std::string("tool_") + p.argv[0] + (p.par.count("with_base") ? " with_base" : " fully_specified") + (es[i].clock.fail ? " clock_fails" : "");
				v.detail = argv_str(p.argv) + ": prints " + cquote(rs[i].out, 70) + " (exit " + std::to_string(rs[i].exit_code) + ") under {" + env_str(es[i]) +
					   "}, " + cquote(rs[0].out, 70) + " (exit " + std::to_string(rs[0].exit_code) + ") under {" + env_str(es[0]) + "}";
				return v;
			}
		}
		return v;
	}

	/* ---- setter sequences ---- */
	static int body_setters(const Plan &p)
	{
		Shared *sh = shared();
		char buf[512];
		for (size_t i = 0; i < p.ops.size(); i++) {
			const Op &o = p.ops[i];
			sh->cur_op = (int64_t)i;
			if (o.kind == "il" || o.kind == "fl") {
				clear_sysfaults();
				std::string full;
				bool torn = false;
				if (!o.a.empty() && o.a[0] > 0)
					set_sysfault(o.a[0] == ENOENT ? "open" : "fstat", 1, (int)o.a[0]);
				else if (!o.a.empty() && fs_get(LOCFILE, full)) {
					/* cut the file inside the block: after the name line plus K bytes, K short of the block's end */
					size_t at = full.compare(0, o.s.size() + 1, o.s + "\n") == 0 ? 0 : full.find("\n" + o.s + "\n");
					if (at != std::string::npos) {
						size_t blk = at + (at ? 1 : 0) + o.s.size() + 1, e = blk;
						for (int k = 0; k < 4 && e != std::string::npos; k++)
							e = full.find('\n', e) == std::string::npos ? std::string::npos : full.find('\n', e) + 1;
						size_t len = (e == std::string::npos ? full.size() : e) - blk;
						if (len > 1) {
							fs_put(LOCFILE, full.substr(0, blk + (size_t)o.arg(1) % (len - 1)));
							torn = true;
						}
					}
				}
				int rc = o.kind == "il" ? glue_setilocale(o.s.empty() ? NULL : o.s.c_str()) : glue_setflocale(o.s.empty() ? NULL : o.s.c_str());
				clear_sysfaults();
				if (torn)
					fs_put(LOCFILE, full);
				blob_append("S " + std::to_string(i) + " " + std::to_string(rc) + "\n");
			} else if (o.kind == "P") {
				/* the text to parse is supplied by the judge through par (it depends on the model state) */
				auto it = p.par.find("ptext" + std::to_string(i));
				auto ft = p.par.find("pfmt" + std::to_string(i));
				if (it == p.par.end() || ft == p.par.end())
					continue;
				int n = glue_parse(it->second.c_str(), ft->second.c_str(), buf, sizeof(buf));
				blob_append("P " + std::to_string(i) + " " + std::to_string(n) + " " + (n > 0 ? std::string(buf, (size_t)n) : "-") + "\n");
			} else if (o.kind == "F") {
				std::string iso = fmt_date((int)o.arg(2), (int)o.arg(0), (int)o.arg(1));
				int n = glue_format(iso.c_str(), "%a|%A|%b|%B", buf, sizeof(buf));
				blob_append("F " + std::to_string(i) + " " + std::to_string(n) + " " + (n > 0 ? hexenc(std::string(buf, (size_t)n)) : "-") + "\n");
			}
		}
		/* leave the way the tools do */
		sh->cur_op = -5;
		glue_setilocale(NULL);
		glue_setflocale(NULL);
		sh->cur_op = -1;
		return 0;
	}

	Verdict judge_setters(const Plan &p0, Stats &st, bool collect)
	{
		Verdict v;
		/* walk the model to decide the probe texts and the expectations */
		Plan p = p0;
		Loc in = english(), out = english();
		struct Exp {
			std::string ref_slot;	/* P: name of the input slot in force ("" = built-in) */
			std::string parse_iso;	/* expected result of P, "" = must fail, "?" = not judged by the model */
			std::string fmt;
			int setrc;
		};
		std::map<size_t, Exp> exp;
		const Loc en = english();
		for (size_t i = 0; i < p.ops.size(); i++) {
			const Op &o = p.ops[i];
			if (o.kind == "il" || o.kind == "fl") {
				Loc &slot = o.kind == "il" ? in : out;
				Exp e;
				if (o.s.empty()) {
					slot = en;
					e.setrc = 0;
				} else if (!o.a.empty()) {
					e.setrc = -1;	/* file unreadable or torn inside the block: fails, tables stay */
				} else if (const Loc *l = find_loc(o.s)) {
					slot = *l;
					e.setrc = 0;
				} else {
					e.setrc = 0;	/* unknown locale: the setter reports 0 and leaves the tables alone */
				}
				exp[i] = e;
			} else if (o.kind == "P") {
				int m = (int)o.arg(0), d = (int)o.arg(1), y = (int)o.arg(2), style = (int)o.arg(3);
				bool lng = style & 1, foreign = style & 2;
				Exp e;
				char txt[256];
				const Loc *src = &in;
				if (foreign && !locales().empty())
					src = &locales()[(size_t)(p.hash() + i) % locales().size()];
				const std::string &mn = lng ? src->lmo[m - 1] : src->amo[m - 1];
				snprintf(txt, sizeof(txt), "%02d %s %04d", d, mn.c_str(), y);
				p.par["ptext" + std::to_string(i)] = txt;
				p.par["pfmt" + std::to_string(i)] = lng ? "%d %B %Y" : "%d %b %Y";
				/* what a handle with no history says: only the current input slot set, then the same probe */
				e.ref_slot = in.name;
				if (!foreign) {
					bool ascii = true;
					for (auto &nm : lng ? in.lmo : in.amo)
						for (char c : nm)
							if (!isalpha((unsigned char)c))
								ascii = false;
					e.parse_iso = parse_friendly(in, lng) && ascii ? fmt_date(y, m, d) : "?";
				} else {
					/* a foreign name must be refused if no name of the input slot even starts like it */
					bool could = mn.empty();
					const auto &cur = lng ? in.lmo : in.amo;
					for (auto &c : cur)
						if (!c.empty() && !mn.empty() && tolower((unsigned char)c[0]) == tolower((unsigned char)mn[0]))
							could = true;
					for (char c : mn)
						if (c >= '0' && c <= '9')
							could = true;
					e.parse_iso = could ? "?" : "";
				}
				exp[i] = e;
			} else if (o.kind == "F") {
				int m = (int)o.arg(0), d = (int)o.arg(1), y = (int)o.arg(2);
				unsigned wd = model::weekday(model::days_from_civil(y, (unsigned)m, (unsigned)d));
				Exp e;
				e.fmt = out.awd[wd] + "|" + out.lwd[wd] + "|" + out.amo[m - 1] + "|" + out.lmo[m - 1];
				exp[i] = e;
			}
		}
		p.env["LOCALE_FILE"] = LOCFILE;
		SimFile f;
		f.path = LOCFILE;
		f.data = locale_text();
		p.files.push_back(f);
		RunResult r = run_plan(p, Limits(), [&]() { return body_setters(p); });
		st.add_probes(r);
		st.ops += p.ops.size();
		if (collect) {
			st.distinct_plans.insert(p0.hash());
			if (p0.ops.size() >= 2)
				st.distinct_nontrivial.insert(p0.hash());
			uint64_t sig = 21;
			for (size_t i = 0; i < p0.ops.size() && i < 10; i++)
				sig = hash_str(sig, p0.ops[i].kind + (p0.ops[i].s.empty() ? "0" : "1"));
			st.signatures.insert(sig);
			st.named["setter_sequences"]++;
			st.named["fault_fired_locale_file_unreadable"] += r.probes[P_OPEN_FAULT] + r.probes[P_FSTAT_FAULT];
			for (auto &o : p0.ops)
				if (!o.a.empty() && o.a[0] < 0 && o.kind.size() == 2)
					st.named["fault_fired_locale_file_torn"]++;
			if (st.samples.size() < 5) {
				std::string s = "setters:";
				for (size_t i = 0; i < p0.ops.size() && i < 8; i++)
					s += " " + p0.ops[i].kind + "(" + (p0.ops[i].kind.size() == 2 ? p0.ops[i].s : std::to_string(p0.ops[i].arg(0))) + ")";
				st.samples.push_back(s);
			}
		}
		if (r.crashed() || !r.done) {
			v.ok = false;
			v.cls = r.hang ? "env/hang" : "env/memory";
			int64_t k = r.cur_op;
			v.predicate = "setters";
			v.detail = "locale setter sequence, op #" + std::to_string(k) + (k >= 0 && (size_t)k < p.ops.size() ? " " + p.ops[(size_t)k].kind + "(" + p.ops[(size_t)k].s + ")" : "") +
				   ": " + r.status_str() + " " + asan_summary(r.err);
			return v;
		}
		for (auto &l : split_lines_keep(r.blob)) {
			char kind;
			size_t idx;
			int n;
			char rest[600] = "";
			if (sscanf(l.c_str(), "%c %zu %d %599s", &kind, &idx, &n, rest) < 3)
				continue;
			auto it = exp.find(idx);
			if (it == exp.end())
				continue;
			const Exp &e = it->second;
			std::string hist;
			for (size_t i = 0; i < idx && i < p.ops.size(); i++)
				if (p.ops[i].kind.size() == 2)
					hist += p.ops[i].kind + "(" + (p.ops[i].s.empty() ? "NULL" : p.ops[i].s) + (p.ops[i].a.empty() ? "" : ",fails") + ") ";
			if (kind == 'S') {
				if (e.setrc < 0 && n == 0) {
					/* reported success although the file could not be read: not judged (status only), tables are */
				}
			} else if (kind == 'P') {
				std::string got = n > 0 ? rest : "";
				{
					/* differential: the same probe after nothing but il(current slot) */
					std::string key = e.ref_slot + "|" + p.par["ptext" + std::to_string(idx)] + "|" + p.par["pfmt" + std::to_string(idx)];
					auto mt = refmemo.find(key);
					std::string ref;
					if (mt != refmemo.end()) {
						ref = mt->second;
						st.mix_value(0, ref);
					} else {
						Plan q;
						q.engine = p.engine;
						q.variant = p.variant;
						q.env = p.env;
						q.files = p.files;
						Op a, b;
						a.kind = "il";
						a.s = e.ref_slot;
						b.kind = "P";
						q.ops = {a, b};
						q.par["ptext1"] = p.par["ptext" + std::to_string(idx)];
						q.par["pfmt1"] = p.par["pfmt" + std::to_string(idx)];
						RunResult rr = run_plan(q, Limits(), [&]() { return body_setters(q); });
						st.add_ref(rr);
						ref = "crash";
						for (auto &rl : split_lines_keep(rr.blob)) {
							int rn;
							size_t ri;
							char rrest[600] = "";
							char rk;
							if (sscanf(rl.c_str(), "%c %zu %d %599s", &rk, &ri, &rn, rrest) >= 3 && rk == 'P')
								ref = rn > 0 ? rrest : "";
						}
						st.mix_value(0, ref);
						if (refmemo.size() < 100000)
							refmemo[key] = ref;
					}
					if (collect)
						st.named["parse_probes_vs_fresh_tables"]++;
					if (got != ref) {
						v.ok = false;
						v.cls = "env/locale-tables";
						v.predicate = "setters parse differential";
						v.detail = "after " + hist + ": parsing " + cquote(p.par["ptext" + std::to_string(idx)], 60) + " gives " + (got.empty() ? "failure" : got) +
							   ", with only the input locale " + (e.ref_slot.empty() ? "(built-in)" : e.ref_slot) + " set it gives " + (ref.empty() ? "failure" : ref);
						return v;
					}
				}
				if (e.parse_iso == "?")
					continue;
				if (collect)
					st.named[e.parse_iso.empty() ? "parse_probes_must_fail" : "parse_probes_must_succeed"]++;
				if (got != e.parse_iso) {
					v.ok = false;
					v.cls = "env/locale-tables";
					v.predicate = "setters parse";
					v.detail = "after " + hist + ": parsing " + cquote(p.par["ptext" + std::to_string(idx)], 60) + " gives " + (got.empty() ? "failure" : got) +
						   ", the input-names slot demands " + (e.parse_iso.empty() ? "failure" : e.parse_iso);
					return v;
				}
			} else if (kind == 'F') {
				std::string got = n > 0 ? hexdec(rest) : "";
				if (collect)
					st.named["format_probes"]++;
				if (got != e.fmt) {
					v.ok = false;
					v.cls = "env/locale-tables";
					v.predicate = "setters format";
					v.detail = "after " + hist + ": formatting prints " + cquote(got, 80) + ", the output-names slot demands " + cquote(e.fmt, 80);
					return v;
				}
			}
		}
		return v;
	}

	Verdict judge_pair(const Plan &p, Stats &st, bool collect)
	{
		Verdict v;
		const Loc *A = find_loc(p.par.count("A") ? p.par.at("A") : ""), *B = find_loc(p.par.count("B") ? p.par.at("B") : "");
		if (!A || !B)
			return v;
		int y = (int)p.ipar("y"), m = (int)p.ipar("m"), d = (int)p.ipar("d");
		bool lng = p.ipar("long") != 0, order = p.ipar("order") != 0;
		std::string tool = p.par.count("tool") ? p.par.at("tool") : "dconv";
		unsigned wd = model::weekday(model::days_from_civil(y, (unsigned)m, (unsigned)d));
		std::string ifmt = lng ? "%A %d %B %Y" : "%a %d %b %Y", ofmt = lng ? "%A %d %B %Y" : "%a %d %b %Y";
		char val[300];
		snprintf(val, sizeof(val), "%s %02d %s %04d", (lng ? A->lwd[wd] : A->awd[wd]).c_str(), d, (lng ? A->lmo[m - 1] : A->amo[m - 1]).c_str(), y);
		/* weekday names with spaces, digits or prefix clashes cannot be asked of a parser */
		for (char c : std::string(lng ? A->lwd[wd] : A->awd[wd]))
			if (c == ' ' || (c >= '0' && c <= '9') || c == '.')
				return v;
		const auto &wdl = lng ? A->lwd : A->awd;
		for (size_t i = 0; i < wdl.size(); i++)
			for (size_t j = 0; j < wdl.size(); j++)
				if (i != j && wdl[j].compare(0, wdl[i].size(), wdl[i]) == 0)
					return v;
		auto mk = [&](bool useA, bool useB, const std::string &value, const std::string &inf, const std::string &outf) {
			Plan q;
			q.engine = p.engine;
			q.variant = p.variant;
			q.argv = {tool};
			std::vector<std::string> oa = {"--from-locale", A->name}, ob = {"--locale", B->name};
			if (order) {
				if (useB)
					q.argv.insert(q.argv.end(), ob.begin(), ob.end());
				if (useA)
					q.argv.insert(q.argv.end(), oa.begin(), oa.end());
			} else {
				if (useA)
					q.argv.insert(q.argv.end(), oa.begin(), oa.end());
				if (useB)
					q.argv.insert(q.argv.end(), ob.begin(), ob.end());
			}
			q.argv.insert(q.argv.end(), {"-i", inf, "-f", outf});
			if (tool == "dconv")
				q.argv.push_back(value);
			else if (tool == "dadd") {
				q.argv.push_back(value);
				q.argv.push_back("+0d");
			} else {
				q.argv.push_back(value);
				q.argv.push_back("+0d");
			}
			return q;
		};
		EnvSpec e = baseline_env();
		RunResult both = run_under(mk(true, true, val, ifmt, ofmt), e, st, true);
		RunResult pa = run_under(mk(true, false, val, ifmt, "%F"), e, st, true);
		std::string iso = pa.out;
		if (!iso.empty() && iso.back() == '\n')
			iso.pop_back();
		std::string want = (lng ? B->lwd[wd] : B->awd[wd]) + " " + (d < 10 ? "0" : "") + std::to_string(d) + " " + (lng ? B->lmo[m - 1] : B->amo[m - 1]) + " " + std::to_string(y) + "\n";
		if (collect) {
			st.distinct_plans.insert(p.hash());
			st.distinct_nontrivial.insert(p.hash());
			st.signatures.insert(hash_str(hash_str(31, tool), std::to_string(order) + std::to_string(lng)));
			st.named["locale_pairs_" + tool]++;
			if (st.samples.size() < 6)
				st.samples.push_back(argv_str(mk(true, true, val, ifmt, ofmt).argv));
		}
		for (const RunResult *r : {&both, &pa})
			if (r->crashed()) {
				v.ok = false;
				v.cls = r->hang ? "env/hang" : "env/memory";
				v.predicate = "pair";
				v.detail = argv_str(mk(true, r == &both, val, ifmt, ofmt).argv) + ": " + r->status_str() + " " + asan_summary(r->err);
				return v;
			}
		/* A alone has to understand its own names (else the locale data itself is ambiguous for a parser: not judged) */
		if (iso != fmt_date(y, m, d)) {
			if (collect)
				st.named["locale_pairs_skipped_A_alone_does_not_parse"]++;
			return v;
		}
		if (both.out != want) {
			v.ok = false;
			v.cls = "env/locale-direction";
			v.predicate = "pair tool_" + tool + (order ? " locale_first" : " from_locale_first");
			v.detail = argv_str(mk(true, true, val, ifmt, ofmt).argv) + " prints " + cquote(both.out, 80) + " (exit " + std::to_string(both.exit_code) +
				   "); parsing with " + A->name + " alone gives " + iso + " and printing that with " + B->name + " names is " + cquote(want, 80);
		}
		return v;
	}

	/* --locale L must not change how input is read; --from-locale L must not change how output is printed */
	Verdict judge_direction(const Plan &p, Stats &st, bool collect)
	{
		Verdict v;
		std::string tool = p.par.count("tool") ? p.par.at("tool") : "dconv";
		std::string L = p.par.count("L") ? p.par.at("L") : "de_DE";
		bool loc_side = !p.par.count("side") || p.par.at("side") == "locale";
		int mode = (int)p.ipar("mode", 0), f = (int)p.ipar("fmt", 0);
		static const char *namefmt[] = {"%b %d %Y", "%d %B %Y", "%a %b %d %Y", "%A, %d %b %Y"};
		const Loc en = english();
		std::vector<std::string> vals;
		for (auto &o : p.ops) {
			if (o.kind != "v")
				continue;
			int y = (int)o.arg(0), m = (int)o.arg(1), d = (int)o.arg(2);
			unsigned wd = model::weekday(model::days_from_civil(y, (unsigned)m, (unsigned)d));
			char b[128];
			if (!loc_side) {
				vals.push_back(fmt_date(y, m, d));
				continue;
			}
			switch (f) {
			case 0:
				snprintf(b, sizeof(b), "%s %02d %04d", en.amo[m - 1].c_str(), d, y);
				break;
			case 1:
				snprintf(b, sizeof(b), "%02d %s %04d", d, en.lmo[m - 1].c_str(), y);
				break;
			case 2:
				snprintf(b, sizeof(b), "%s %s %02d %04d", en.awd[wd].c_str(), en.amo[m - 1].c_str(), d, y);
				break;
			default:
				snprintf(b, sizeof(b), "%s, %02d %s %04d", en.lwd[wd].c_str(), d, en.amo[m - 1].c_str(), y);
				break;
			}
			vals.push_back(b);
		}
		if (vals.empty())
			return v;
		auto mk = [&](bool with_opt) {
			Plan q;
			q.engine = p.engine;
			q.variant = p.variant;
			q.argv = {tool};
			if (with_opt) {
				q.argv.push_back(loc_side ? "--locale" : "--from-locale");
				q.argv.push_back(L);
			}
			if (mode == 2)
				q.argv.push_back("-S");
			if (loc_side)
				q.argv.insert(q.argv.end(), {"-i", namefmt[f], "-f", "%F"});
			else
				q.argv.insert(q.argv.end(), {"-f", namefmt[f]});
			if (mode == 0 && tool != "dconv") {
				q.argv.push_back(vals[0]);
				q.argv.push_back("+0d");
			} else if (mode == 0) {
				for (auto &x : vals)
					q.argv.push_back(x);
			} else {
				if (tool != "dconv")
					q.argv.push_back("+0d");
				q.has_input = true;
				for (auto &x : vals)
					q.input += (mode == 2 ? "log: " + x + " end\n" : x + "\n");
			}
			return q;
		};
		EnvSpec e = baseline_env();
		RunResult with = run_under(mk(true), e, st, true), without = run_under(mk(false), e, st, true);
		if (collect) {
			st.distinct_plans.insert(p.hash());
			st.distinct_nontrivial.insert(p.hash());
			st.signatures.insert(hash_str(hash_str(51, tool + (loc_side ? "L" : "F")), std::to_string(mode) + std::to_string(f)));
			st.named[loc_side ? "direction_locale_vs_parsing" : "direction_from_locale_vs_printing"]++;
			if (st.samples.size() < 7)
				st.samples.push_back(argv_str(mk(true).argv) + (mode ? " <<< " + cquote(mk(true).input, 60) : ""));
		}
		for (const RunResult *r : {&with, &without})
			if (r->crashed()) {
				v.ok = false;
				v.cls = r->hang ? "env/hang" : "env/memory";
				v.predicate = "direction";
				v.detail = argv_str(mk(r == &with).argv) + ": " + r->status_str() + " " + asan_summary(r->err);
				return v;
			}
		if (with.out != without.out || with.exit_code != without.exit_code) {
			v.ok = false;
			v.cls = "env/locale-direction";
			v.predicate = std::string("direction ") + (loc_side ? "locale_affects_parsing" : "from_locale_affects_printing") + " tool_" + tool + (mode == 0 ? " args" : mode == 1 ? " stdin" : " sed");
			v.detail = argv_str(mk(true).argv) + (mode ? " <<< " + cquote(mk(true).input, 60) : "") + " prints " + cquote(with.out, 60) + " (exit " + std::to_string(with.exit_code) +
				   "), without the option " + cquote(without.out, 60) + " (exit " + std::to_string(without.exit_code) + ")";
		}
		return v;
	}

	Verdict judge(const Plan &p, Stats &st, bool collect) override
	{
		std::string kind = p.par.count("kind") ? p.par.at("kind") : "config";
		if (kind == "setters")
			return judge_setters(p, st, collect);
		if (kind == "pair")
			return judge_pair(p, st, collect);
		if (kind == "direction")
			return judge_direction(p, st, collect);
		return judge_config(p, st, collect, kind == "control");
	}

	std::vector<Plan> candidates(const Plan &p) override
	{
		std::vector<Plan> out;
		std::string kind = p.par.count("kind") ? p.par.at("kind") : "config";
		if (kind == "setters") {
			for (auto &vv : chunk_removals(p.ops)) {
				if (vv.empty())
					continue;
				Plan q = p;
				q.ops = vv;
				out.push_back(q);
			}
			return out;
		}
		if (kind == "config") {
			int nenv = (int)p.ipar("nenv", 0);
			/* fewer environments: keep one at a time */
			for (int k = 0; k < nenv && nenv > 1; k++) {
				Plan q = p;
				for (auto it = q.par.begin(); it != q.par.end();)
					if (it->first[0] == 'e' && isdigit((unsigned char)it->first[1]))
						it = q.par.erase(it);
					else
						++it;
				put_env(q, "e0_", get_env(p, "e" + std::to_string(k) + "_"));
				q.par["nenv"] = "1";
				out.push_back(q);
			}
			/* fewer values */
			if (p.argv.size() > 4) {
				Plan q = p;
				q.argv.pop_back();
				out.push_back(q);
			}
			auto lines = split_lines_keep(p.input);
			for (auto &vv : chunk_removals(lines)) {
				if (vv.empty())
					continue;
				Plan q = p;
				q.input = join(vv);
				out.push_back(q);
			}
		}
		return out;
	}
};

} /* anon */

Engine *make_env_engine() { return new EnvEngine(); }

} /* namespace sim */
