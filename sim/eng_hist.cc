/* eng_hist.cc -- C13 at tool level: an N-input run equals the concatenation of N one-input incarnations
 *
 * All incarnations of one comparison start from the same simulated clock reading; in the N-run the
 * clock jumps a day (or more) after every read(), which the singles cannot see.  Stdin is delivered
 * one line per read, so chunking plays no role here (that is C18's business). */
#include "engine.h"
#include "models.h"
#include "invgen.h"
#include <string.h>
#include <algorithm>

#ifndef SIM_NL
# define SIM_NL 16384
#endif

namespace sim {
namespace {

enum { RD_MAX = 0, RD_NL = 1 };

/* includes names that are proper prefixes of other names (zone handles are cached by name) */
const char *const zones[] = {"Europe/Berlin", "America/New_York", "Asia/Gaza", "Australia/Lord_Howe", "Asia/Tokyo",
			     "Asia/Kathmandu", "Africa/Casablanca", "America/St_Johns", "Pacific/Apia", "UTC",
			     "EST", "EST5EDT", "MST", "MST7MDT", "NZ", "NZ-CHAT", "Etc/GMT-1", "Etc/GMT-10", "Etc/GMT-14", "GMT", "GMT0",
			     /* fixed offsets need no file: what the handle for them is, is the library's business */
			     "+05:00", "+03:00", "+00:45", "+09:30", "+05:00"};

struct Cfg {
	const char *tool;
	std::vector<std::string> opts;	/* may contain @Z (zone), @Z2 */
	int mode;			/* 0 args, 1 stdin lines */
	int vkind;			/* 0 date/time values, 1 durations, 2 free text lines with dates, 3 dzone matrix */
	bool status;			/* exit status relation is judged */
};
const Cfg cfgs[] = {
	{"dconv", {}, 0, 0, true},
	{"dconv", {"-f", "%d %b %Y"}, 0, 0, true},
	{"dconv", {"-f", "%A, %B %d %Y %H:%M:%S xxxxxxxxxxxxxxxxxxxxxxxxxxxxxxxxxxxxxxxxxxxxxxxxxxxxxxxxxxxxxxxxxxxx"}, 0, 0, true},
	{"dconv", {"-i", "%d/%m/%Y", "-i", "%F", "-f", "%j %Y"}, 0, 0, true},
	{"dconv", {"--zone", "@Z", "-f", "%FT%T%Z"}, 0, 0, true},
	{"dconv", {"--from-zone", "@Z", "-f", "%FT%T"}, 0, 0, true},
	{"dconv", {"--from-zone", "@Z", "--zone", "@Z2", "-f", "%FT%T%Z"}, 0, 0, true},
	{"dconv", {"-q", "-f", "%s"}, 0, 0, true},
	{"dconv", {}, 1, 0, true},
	{"dconv", {"-f", "%d.%m.%Y %H:%M"}, 1, 0, true},
	{"dconv", {"--zone", "@Z", "-f", "%FT%T%Z"}, 1, 0, true},
	{"dconv", {"--from-zone", "@Z"}, 1, 0, true},
	{"dconv", {"-S", "--zone", "@Z", "-f", "%FT%T%Z"}, 1, 2, true},
	{"dconv", {"-e", "-f", "%F"}, 1, 0, true},
	{"dconv", {"-f", "%G-W%V-%u"}, 1, 0, true},
	{"dadd", {"+1d"}, 1, 0, true},
	{"dadd", {"+1mo", "-f", "%F %a"}, 1, 0, true},
	{"dadd", {"-S", "-1y"}, 1, 2, true},
	{"dadd", {"--zone", "@Z", "+6h", "-f", "%FT%T%Z"}, 1, 0, true},
	{"dadd", {"2012-01-31"}, 1, 1, true},
	{"dadd", {"2012-02-29T12:00:00"}, 1, 1, true},
	{"dround", {"Mon"}, 1, 0, true},
	{"dround", {"1h"}, 1, 0, true},
	{"dround", {"-S", "Sat"}, 1, 2, true},
	{"dround", {"--", "-31"}, 1, 0, true},
	{"ddiff", {"2012-01-01"}, 0, 0, true},
	{"ddiff", {"2012-01-01T12:00:00", "-f", "%dd %Hh %Ss"}, 0, 0, true},
	{"ddiff", {"2000-02-29", "-f", "%m mo %d d"}, 1, 0, true},
	{"ddiff", {"2012-01-01"}, 1, 0, true},
	{"dgrep", {">=2012-03-01"}, 1, 2, true},
	{"dgrep", {"-o", "<2012-03-01"}, 1, 2, true},
	{"dgrep", {"-v", "--eq", "2012-02-29"}, 1, 2, true},
	{"dgrep", {">=2012-03-01 && <2013-01-01 || 2000-01-01"}, 1, 2, true},
	{"dgrep", {"-i", "%d/%m/%Y", ">2012-03-01"}, 1, 2, true},
	/* formats without a literal to search for: the line scanner counts digits instead */
	{"dconv", {"-i", "%Y%m%d", "-f", "%F"}, 1, 4, true},
	{"dadd", {"-i", "%Y%m%d", "+1d"}, 1, 4, true},
	{"dgrep", {"-i", "%Y%m%d", ">=2012-03-01"}, 1, 4, true},
	{"dconv", {"-i", "%s", "-f", "%FT%T"}, 1, 5, true},
	{"dconv", {"-S", "-i", "%Y%m%d", "-f", "%F"}, 1, 4, true},
	/* the strptime helper: libc's strptime() fills a struct tm field by field and leaves it as it is when it gives up */
	{"strptime", {"-i", "%Y-%m-%d %H:%M:%S", "-i", "%d/%m/%Y", "-f", "%Y-%m-%d %H:%M:%S"}, 1, 6, true},
	{"strptime", {"-i", "%Y-%m-%d %H:%M:%S", "-i", "%d/%m/%Y", "-f", "%Y-%m-%d %H:%M:%S"}, 0, 6, true},
	{"strptime", {"-i", "%d/%m/%Y", "-i", "%H:%M", "-i", "%Y-%m-%d %H:%M:%S", "-t"}, 1, 6, true},
	{"strptime", {"-i", "%Y-%j %H", "-i", "%d/%m/%Y", "-f", "%j %H %d %m %Y %a", "-q"}, 1, 6, true},
	{"dzone", {}, 0, 3, false},
	{"dzone", {"--next"}, 0, 3, false},
	{"dzone", {"--prev", "--next"}, 0, 3, false},
};

std::string rand_value(Rng &r)
{
	char b[80];
	unsigned k = (unsigned)r.below(100);
	int y = (int)(r.chance(1, 6) ? r.range(1700, 2400) : r.range(1890, 2090));
	int m = (int)r.range(1, 12), d = (int)r.range(1, model::mdays(y, m));
	int H = (int)r.below(24), M = (int)r.below(60), S = (int)r.below(60);
	if (k < 28)
		snprintf(b, sizeof(b), "%04d-%02d-%02d", y, m, d);
	else if (k < 56)
		snprintf(b, sizeof(b), "%04d-%02d-%02dT%02d:%02d:%02d", y, m, d, H, M, S);
	else if (k < 62)
		snprintf(b, sizeof(b), "%02d:%02d:%02d", H, M, S);	/* date taken from the base */
	else if (k < 66)
		snprintf(b, sizeof(b), "%04d-%02d-%02d %02d:%02d:%02d", y, m, d, H, M, S);
	else if (k < 70)
		snprintf(b, sizeof(b), "%04d-W%02d-%02d", y, (int)r.range(1, 52), (int)r.range(1, 7));
	else if (k < 73)
		snprintf(b, sizeof(b), "%04d-%03d", y, (int)r.range(1, 365));
	else if (k < 76)
		snprintf(b, sizeof(b), "%04d-%02d-%02db", y, m, (int)r.range(1, 20));
	else if (k < 79)
		snprintf(b, sizeof(b), "%02d/%02d/%04d", d, m, y);
	else if (k < 82)
		snprintf(b, sizeof(b), "1800-01-01T00:00:00");		/* before the first transition of every zone */
	else if (k < 85)
		snprintf(b, sizeof(b), "%04d-06-01T00:00:00", (int)r.range(2040, 2086));	/* index above 255 in Asia/Gaza */
	else if (k < 88)
		snprintf(b, sizeof(b), "1969-07-20T20:17:00");
	else if (k < 90)
		snprintf(b, sizeof(b), "%04d-%02d", y, m);
	else if (k < 92)
		snprintf(b, sizeof(b), "%04d-%02d-%02dT%02d:%02d", y, m, d, H, M);
	else {
		static const char *junk[] = {"foo", "", "2012-13-45", "99", "--", "2012-02-30", "24:00:00", "T", "2012-01-01T", "0000-00-00", " ", "1e9"};
		return junk[r.below(sizeof(junk) / sizeof(*junk))];
	}
	return b;
}
std::string rand_compact(Rng &r, int vkind)
{
	char b[40];
	if (r.chance(1, 12))
		return r.chance(1, 2) ? "x" : "";
	if (vkind == 5) {
		snprintf(b, sizeof(b), "%lld", (long long)r.range(0, 2000000000));
		return b;
	}
	int y = (int)r.range(1950, 2050), m = (int)r.range(1, 12);
	snprintf(b, sizeof(b), "%04d%02d%02d", y, m, (int)r.range(1, model::mdays(y, m)));
	return b;
}
std::string rand_strptime_value(Rng &r)
{
	char b[64];
	int y = (int)r.range(1971, 2037), m = (int)r.range(1, 12), d = (int)r.range(1, 28);
	int H = (int)r.below(24), M = (int)r.below(60), S = (int)r.below(60);
	switch (r.below(8)) {
	case 0:
	case 1:
		snprintf(b, sizeof(b), "%04d-%02d-%02d %02d:%02d:%02d", y, m, d, H, M, S);
		break;
	case 2:
	case 3:
		snprintf(b, sizeof(b), "%02d/%02d/%04d", d, m, y);
		break;
	case 4:
		snprintf(b, sizeof(b), "%04d-%02d-%02d %02d:%02d:xx", y, m, d, H, M);	/* read half way, then refused */
		break;
	case 5:
		snprintf(b, sizeof(b), "%02d:%02d", H, M);
		break;
	case 6:
		snprintf(b, sizeof(b), "%04d-%03d %02d", y, (int)r.range(1, 365), H);
		break;
	default:
		snprintf(b, sizeof(b), "%04d-%02d-%02d %02d:", y, m, d, H);	/* refused after date and hour */
		break;
	}
	return b;
}
std::string rand_dur(Rng &r)
{
	static const char *du[] = {"+1d", "-1d", "+1mo", "-1mo", "+1y", "-3w", "+2d", "+12h", "-90m", "+3600s", "1d", "xx", "", "+1mo1d",
				   "-1y2mo", "/1d", "+5bd", "-2bd", "+100d", "1w", "--1d", "+0d",
				   /* lines that start like durations and then fail */
				   /* zero quantities under a sign, counts that overflow */
				   "-0d", "-0s", "-1h0m", "+0mo", "-0w", "99999999999d", "+9999999999999999999999h", "-99999999999mo", "2147483648s",
				   "1d xyz", "2h 30 minutes", "+1mo +x", "1d 2", "3w 1d", "+1d -1d", "1y 2mo 3d junk"};
	return du[r.below(sizeof(du) / sizeof(*du))];
}
std::string rand_text_line(Rng &r)
{
	static const char *words[] = {"lorem", "ipsum", "x", "--", "at", "from", "::", "", "T", "log:", "[info]", "12", "a-b"};
	std::string s;
	int n = (int)r.range(0, 4);
	for (int i = 0; i < n; i++) {
		s += r.chance(1, 2) ? rand_value(r) : std::string(words[r.below(sizeof(words) / sizeof(*words))]);
		if (i + 1 < n)
			s += " ";
	}
	return s;
}

struct HistEngine : Engine {
	std::map<std::string, std::pair<int, std::string>> memo;
	const char *name() const override { return "hist"; }
	const char *property() const override { return "C13"; }

	static void embed_zone(Plan &p, const std::string &z)
	{
		std::string path = "/usr/share/zoneinfo/" + z, data;
		for (auto &f : p.files)
			if (f.path == path)
				return;
		if (real_file_bytes(path, data)) {
			SimFile f;
			f.path = path;
			f.data = data;
			p.files.push_back(f);
		}
	}

	/* a bare time anywhere in the text (HH:MM.. not preceded by a date), or YYYY-MM alone: the date comes from `now' */
	static bool looks_clock_dependent(const std::string &line)
	{
		size_t a = 0;
		while (a <= line.size()) {
			size_t e = line.find_first_of(" \t\n", a);
			if (e == std::string::npos)
				e = line.size();
			std::string x = line.substr(a, e - a);
			for (size_t i = 0; i < x.size(); i++) {
				if (x[i] == ':' && i >= 2) {
					size_t b = i - 2;
					bool dated = b >= 11 && (x[b - 1] == 'T') && isdigit((unsigned char)x[b - 2]) && x[b - 4] == '-';
					if (!dated)
						return true;
					i += 6;
				}
			}
			if (x.size() == 7 && x[4] == '-')
				return true;
			a = e + 1;
		}
		/* "date time" with a blank in between is one value for the format-less parser */
		return false;
	}

	/* ---- invocations drawn from the shared grammar (invgen.h) instead of the table ---- */
	Plan generate_grammar(Rng &r, const Config &cfg)
	{
		Plan p;
		inv::GenOpt go;
		inv::Inv iv = inv::rand_inv(r, go);
		p.argv = inv::inv_argv(iv);
		for (auto &z : iv.zones)
			embed_zone(p, z);
		p.par["g"] = "1";
		p.par["tool"] = iv.tool;
		p.par["mode"] = std::to_string(iv.mode ? 1 : 0);
		p.par["nfixed"] = std::to_string(p.argv.size());
		size_t n;
		unsigned lk = (unsigned)r.below(100);
		bool longh = false;
		if (lk < 72)
			n = (size_t)r.range(1, 8);
		else if (lk < 90)
			n = (size_t)r.range(9, 40);
		else {
			longh = true;
			if (SIM_NL <= 64)
				n = (size_t)r.range(SIM_NL + 1, 6 * SIM_NL + 8);
			else
				n = (size_t)r.range(130, cfg.tier == "thorough" ? 700 : 400);
		}
		if (iv.mode == 0 && n > 60)
			n = 60;
		std::vector<std::string> pool;
		size_t npool = longh ? (size_t)r.range(2, 6) : 0;
		auto one = [&]() {
			std::string v = inv::inv_value(r, iv);
			return iv.textlines ? inv::text_around(r, v) : v;
		};
		for (size_t i = 0; i < npool; i++)
			pool.push_back(one());
		std::vector<std::string> vals;
		for (size_t i = 0; i < n; i++)
			vals.push_back(npool ? pool[r.below(npool)] : one());
		if (iv.mode == 0) {
			for (auto &v : vals)
				if (!v.empty() && v[0] != '-')
					p.argv.push_back(v);
			if (p.argv.size() == (size_t)p.ipar("nfixed"))
				p.argv.push_back("2012-03-04");
		} else {
			p.has_input = true;
			for (auto &v : vals)
				p.input += v + "\n";
			Op o;
			o.kind = "rd";
			o.a = {RD_NL, 0, 0};
			if (SIM_NL <= 64 && longh && r.chance(1, 2))
				o.a = {4 /* all that is asked for */, 0, 0};
			p.sched.push_back(o);
		}
		static const int64_t starts[] = {951782399, 1000000000, 946684799, 1330559999, 2147483647, 86399, 1456790399, 4102444799LL};
		p.clock.start = starts[r.below(sizeof(starts) / sizeof(*starts))];
		p.clock.per_read_s = r.chance(1, 3) ? 0 : r.chance(1, 2) ? 86400 : 86400 * 366;
		/* whatever leaves a field to `now' (bare times, short formats without --base) legitimately reads the
		 * clock at a moment that differs between the long run and the one-value run: frozen clock */
		bool tdep = false;
		for (auto &v : vals)
			tdep |= looks_clock_dependent(v);
		if (!iv.full || iv.kind == inv::K_TIME || iv.has_base || tdep) {
			p.clock.per_read_s = 0;
			p.par["clockdep"] = "1";
		}
		p.clock.step_us = p.par.count("clockdep") ? 0 : r.chance(1, 2) ? 0 : 1;
		return p;
	}

	struct RCfg {
		std::string tool;
		int mode, vkind;
		bool status;
	};
	static bool resolve_cfg(const Plan &p, RCfg &c)
	{
		if (p.par.count("g")) {
			c.tool = p.par.count("tool") ? p.par.at("tool") : "dconv";
			c.mode = (int)p.ipar("mode", 0);
			c.vkind = 0;
			c.status = true;
			return true;
		}
		size_t ci = (size_t)p.ipar("cfg", 0);
		if (ci >= sizeof(cfgs) / sizeof(*cfgs))
			return false;
		c.tool = cfgs[ci].tool;
		c.mode = cfgs[ci].mode;
		c.vkind = cfgs[ci].vkind;
		c.status = cfgs[ci].status;
		return true;
	}

	Plan generate(Rng &r, uint64_t idx, const Config &cfg) override
	{
		(void)idx;
		Plan p;
		if (cfg.iopt("grammar", 1) && r.chance(1, 2))
			return generate_grammar(r, cfg);
		size_t ci = r.below(sizeof(cfgs) / sizeof(*cfgs));
		const Cfg &c = cfgs[ci];
		p.par["cfg"] = std::to_string(ci);
		std::string z1 = zones[r.below(sizeof(zones) / sizeof(*zones))], z2 = zones[r.below(sizeof(zones) / sizeof(*zones))];
		{
			const char *a, *b;
			inv::zone_pair(r, a, b);
			if (r.chance(1, 2)) {
				z1 = a;
				z2 = b;
			}
		}
		p.argv.push_back(c.tool);
		for (auto &o : c.opts) {
			if (o == "@Z") {
				p.argv.push_back(z1);
				embed_zone(p, z1);
			} else if (o == "@Z2") {
				p.argv.push_back(z2);
				embed_zone(p, z2);
			} else
				p.argv.push_back(o);
		}
		p.par["nfixed"] = std::to_string(p.argv.size());
		/* history length: mostly short, with a tail of long ones */
		size_t n;
		unsigned lk = (unsigned)r.below(100);
		bool longh = false;
		if (lk < 70)
			n = (size_t)r.range(1, 8);
		else if (lk < 88)
			n = (size_t)r.range(9, 40);
		else {
			longh = true;
			if (SIM_NL <= 64)
				n = (size_t)r.range(SIM_NL + 1, 6 * SIM_NL + 8);	/* reader window reuse */
			else
				n = (size_t)r.range(256, cfg.tier == "thorough" ? 700 : 400);	/* > 255 searches */
		}
		if (c.mode == 0 && n > 60)
			n = 60;
		std::vector<std::string> pool;
		size_t npool = longh ? (size_t)r.range(2, 6) : 0;
		if (c.vkind >= 4 && c.vkind != 6 && !longh && r.chance(1, 2)) {
			/* the digit scanner's counter lives across lines: a medium long stream of few values */
			n = (size_t)r.range(130, 320);
			npool = (size_t)r.range(2, 5);
		}
		for (size_t i = 0; i < npool; i++)
			pool.push_back(c.vkind == 6 ? rand_strptime_value(r) : c.vkind >= 4 ? rand_compact(r, c.vkind) : c.vkind == 1 ? rand_dur(r) : c.vkind == 2 ? rand_text_line(r) : rand_value(r));
		std::vector<std::string> vals;
		if (c.vkind == 3) {
			/* dzone: zones x date-times */
			size_t nz = (size_t)r.range(1, 4), nt = (size_t)r.range(1, 4);
			for (size_t i = 0; i < nz; i++) {
				std::string z = zones[r.below(sizeof(zones) / sizeof(*zones))];
				if (i + 1 < nz && r.chance(1, 3)) {
					/* a name and, right behind it, one that extends it */
					const char *a, *b;
					inv::zone_pair(r, a, b);
					p.argv.push_back(a);
					embed_zone(p, a);
					z = b;
					i++;
				}
				p.argv.push_back(z);
				embed_zone(p, z);
			}
			p.par["nzones"] = std::to_string(nz);
			for (size_t i = 0; i < nt; i++) {
				/* dzone takes whatever does not parse as a date for a zone name and falls back to
				 * `now' when no date is left: only proper dates decompose into single runs */
				char b[40];
				int y = (int)r.range(1850, 2090), m = (int)r.range(1, 12), d = (int)r.range(1, model::mdays(y, m));
				unsigned k = (unsigned)r.below(10);
				if (k < 6)
					snprintf(b, sizeof(b), "%04d-%02d-%02dT%02d:%02d:%02d", y, m, d, (int)r.below(24), (int)r.below(60), (int)r.below(60));
				else if (k < 8)
					snprintf(b, sizeof(b), "%04d-%02d-%02d", y, m, d);
				else if (k < 9)
					snprintf(b, sizeof(b), "1800-01-01T00:00:00");
				else
					snprintf(b, sizeof(b), "%04d-06-01T00:00:00", (int)r.range(2040, 2086));
				p.argv.push_back(b);
			}
			return p;
		}
		for (size_t i = 0; i < n; i++)
			vals.push_back(npool ? pool[r.below(npool)] : c.vkind == 6 ? rand_strptime_value(r) : c.vkind >= 4 ? rand_compact(r, c.vkind) : c.vkind == 1 ? rand_dur(r) : c.vkind == 2 ? rand_text_line(r) : rand_value(r));
		if (c.mode == 0) {
			for (auto &v : vals) {
				if (v.empty() || v[0] == '-')
					continue;	/* would be taken for an option */
				p.argv.push_back(v);
			}
			if (p.argv.size() == (size_t)p.ipar("nfixed"))
				p.argv.push_back("2012-03-04");
		} else {
			p.has_input = true;
			for (auto &v : vals)
				p.input += v + "\n";
			Op o;
			o.kind = "rd";
			o.a = {RD_NL, 0, 0};
			/* long histories in the small-window builds: also as fast as the reader asks, so that the
			 * window fills up in the middle of a read */
			if (SIM_NL <= 64 && longh && r.chance(1, 2))
				o.a = {4 /* all that is asked for */, 0, 0};
			p.sched.push_back(o);
		}
		/* the clock: same start everywhere; the N-run sees it jump after every read */
		static const int64_t starts[] = {951782399, 1000000000, 946684799, 1330559999, 2147483647, 86399, 1456790399, 4102444799LL};
		p.clock.start = starts[r.below(sizeof(starts) / sizeof(*starts))];
		p.clock.per_read_s = r.chance(1, 3) ? 0 : r.chance(1, 2) ? 86400 : 86400 * 366;
		/* a value that leaves fields to the base (time only, year-month) takes them from the clock reading
		 * at the moment `now' is first needed; that moment legitimately differs between a long run and a
		 * one-value run, so such histories run under a clock that does not move between reads */
		{
			auto clockdep = [](const std::string &x) {
				for (size_t i = 0; i + 7 < x.size() + 0 && i < x.size(); i++)
					;
				/* HH:MM:SS not preceded by a date, or YYYY-MM alone, or date-time without seconds */
				for (size_t i = 0; i < x.size(); i++) {
					if (x[i] == ':' && i >= 2) {
						size_t b = i - 2;
						bool dated = b >= 11 && (x[b - 1] == 'T' || x[b - 1] == ' ') && isdigit((unsigned char)x[b - 2]) && x[b - 4] == '-';
						if (!dated)
							return true;
						i += 6;
					}
				}
				return x.size() == 7 && x[4] == '-';
			};
			bool dep = false;
			for (size_t i = (size_t)p.ipar("nfixed"); i < p.argv.size(); i++)
				dep |= clockdep(p.argv[i]);
			for (auto &l : split_lines_keep(p.input)) {
				size_t a = 0;
				while (a < l.size()) {
					size_t e = l.find_first_of(" \n", a);
					if (e == std::string::npos)
						e = l.size();
					dep |= clockdep(l.substr(a, e - a));
					a = e + 1;
				}
			}
			if (dep) {
				p.clock.per_read_s = 0;
				p.par["clockdep"] = "1";
			}
		}
		p.clock.step_us = r.chance(1, 2) ? 0 : 1;
		return p;
	}

	bool run_single(const Plan &base, const std::vector<std::string> &argv, const std::string &input, bool has_input, Stats &st,
			int &status, std::string &out, std::string &why)
	{
		std::string key;
		for (auto &a : argv)
			key += a + '\1';
		key += '\2' + input + '\2' + std::to_string(base.clock.start);
		auto it = memo.find(key);
		if (it != memo.end()) {
			status = it->second.first;
			out = it->second.second;
			st.mix_value(status, out);
			return true;
		}
		Plan q;
		q.engine = "hist";
		q.variant = base.variant;
		q.argv = argv;
		q.files = base.files;
		q.clock = base.clock;
		q.has_input = has_input;
		q.input = input;
		q.sched = base.sched;
		RunResult r = run_plan(q);
		st.add_ref(r);
		if (r.crashed() || r.flags) {
			why = r.status_str() + " " + r.note + " " + asan_summary(r.err);
			return false;
		}
		status = r.exit_code;
		out = r.out;
		st.mix_value(status, out);
		if (memo.size() < 100000)
			memo[key] = {status, out};
		return true;
	}

	static std::string argv_str(const std::vector<std::string> &a, size_t max = 12)
	{
		std::string s;
		for (size_t i = 0; i < a.size() && i < max; i++)
			s += (i ? " " : "") + (a[i].find(' ') != std::string::npos || a[i].empty() ? "'" + a[i] + "'" : a[i]);
		if (a.size() > max)
			s += " ...";
		return s;
	}

	Verdict judge(const Plan &p, Stats &st, bool collect) override
	{
		Verdict v;
		size_t ci = p.par.count("g") ? 1000 : (size_t)p.ipar("cfg", 0);
		RCfg c;
		if (!resolve_cfg(p, c)) {
			v.harness = true;
			v.ok = false;
			v.detail = "bad cfg index";
			return v;
		}
		size_t nfixed = (size_t)p.ipar("nfixed", 1);
		Limits lim;
		lim.cpu_s = 4.0;
		RunResult r = run_plan(p, lim);
		st.add_probes(r);
		v.predicate = std::string("tool_") + c.tool + (c.mode ? " stdin" : " args") + (p.par.count("g") ? " grammar" : "");
		for (auto &a : p.argv)
			if (a == "--zone" || a == "--from-zone")
				v.predicate += " zone_option";
		/* the inputs */
		std::vector<std::pair<std::vector<std::string>, std::string>> singles;	/* (argv, input) */
		if (c.vkind == 3) {
			size_t nz = (size_t)p.ipar("nzones", 1);
			std::vector<std::string> fixed(p.argv.begin(), p.argv.begin() + nfixed);
			std::vector<std::string> zs(p.argv.begin() + nfixed, p.argv.begin() + std::min(p.argv.size(), nfixed + nz));
			for (size_t i = nfixed + nz; i < p.argv.size(); i++)
				for (auto &z : zs) {
					auto a = fixed;
					a.push_back(z);
					a.push_back(p.argv[i]);
					singles.push_back({a, ""});
				}
		} else if (c.mode == 0) {
			std::vector<std::string> fixed(p.argv.begin(), p.argv.begin() + std::min(nfixed, p.argv.size()));
			for (size_t i = nfixed; i < p.argv.size(); i++) {
				auto a = fixed;
				a.push_back(p.argv[i]);
				singles.push_back({a, ""});
			}
		} else {
			for (auto &l : split_lines_keep(p.input))
				singles.push_back({p.argv, l});
		}
		if (collect) {
			st.distinct_plans.insert(p.hash());
			if (singles.size() >= 2)
				st.distinct_nontrivial.insert(p.hash());
			uint64_t sig = hash_mix(ci, singles.size() > 255 ? 4 : singles.size() > SIM_NL ? 3 : singles.size() > 8 ? 2 : singles.size() > 1 ? 1 : 0);
			for (size_t i = 0; i < singles.size() && i < 6; i++) {
				const std::string &x = c.mode ? singles[i].second : singles[i].first.back();
				sig = hash_mix(sig, x.size() > 12 ? 2 : x.size() > 4 ? 1 : 0);
				sig = hash_mix(sig, x.compare(0, 2, "18") == 0 ? 1 : x.compare(0, 2, "20") == 0 ? 2 : 0);
			}
			st.signatures.insert(sig);
			st.named[std::string("histories_") + c.tool]++;
			if (p.par.count("g"))
				st.named["histories_from_grammar"]++;
			st.named["values"] += singles.size();
			if (singles.size() > 255)
				st.named["reach_more_than_255_values"]++;
			if (SIM_NL <= 64 && singles.size() > (size_t)SIM_NL)
				st.named["reach_reader_window_reused"]++;
			if (singles.size() >= 2)
				st.named["reach_history_of_two_or_more"]++;
			st.clock_starts.insert(p.clock.start);
			st.sim_seconds += p.clock.per_read_s * (int64_t)r.probes[P_READS];
			if (st.samples.size() < 4 && singles.size() > 1 && singles.size() < 6)
				st.samples.push_back(argv_str(p.argv) + (c.mode ? " <<< " + cquote(p.input, 120) : ""));
		}
		if (r.crashed() || r.flags) {
			/* is it the history or one value? run the singles to find out */
			for (auto &s : singles) {
				int status;
				std::string out, why;
				if (!run_single(p, s.first, s.second, c.mode == 1, st, status, out, why)) {
					v.ok = false;
					v.cls = r.hang ? "hist/hang" : "hist/memory";
					v.predicate += " single_value_fails";
					v.detail = "single run " + argv_str(s.first) + (c.mode ? " <<< " + cquote(s.second, 60) : "") + ": " + why;
					return v;
				}
			}
			v.ok = false;
			v.cls = r.hang ? "hist/hang" : "hist/memory";
			v.detail = argv_str(p.argv) + " with " + std::to_string(singles.size()) + " values: " + r.status_str() + " " + r.note + " " + asan_summary(r.err) +
				   " (every value alone is fine)";
			return v;
		}
		std::string expect;
		bool any_nz = false;
		std::vector<size_t> ends;
		for (auto &s : singles) {
			int status;
			std::string out, why;
			if (!run_single(p, s.first, s.second, c.mode == 1, st, status, out, why)) {
				v.ok = false;
				v.cls = "hist/memory";
				v.predicate += " single_value_fails";
				v.detail = "single run " + argv_str(s.first) + (c.mode ? " <<< " + cquote(s.second, 60) : "") + ": " + why;
				return v;
			}
			any_nz |= status != 0;
			expect += out;
			ends.push_back(expect.size());
		}
		if (r.out != expect) {
			/* locate the first value whose output differs */
			size_t k = 0, pos = 0;
			while (pos < r.out.size() && pos < expect.size() && r.out[pos] == expect[pos])
				pos++;
			while (k < ends.size() && ends[k] <= pos)
				k++;
			v.ok = false;
			v.cls = "hist/history-dependence";
			size_t b = k ? ends[k - 1] : 0;
			std::string val = k < singles.size() ? (c.mode ? singles[k].second : singles[k].first.back()) : "(past the last value)";
			v.detail = argv_str(p.argv, 8) + ": value #" + std::to_string(k) + " " + cquote(val, 40) + " printed " +
				   cquote(r.out.substr(std::min(b, r.out.size()), 60), 60) + " after " + std::to_string(k) + " earlier values, " +
				   cquote(expect.substr(std::min(b, expect.size()), 60), 60) + " when run alone";
			return v;
		}
		if (c.status && (r.exit_code != 0) != any_nz) {
			v.ok = false;
			v.cls = "hist/status";
			v.detail = argv_str(p.argv, 8) + ": exit status " + std::to_string(r.exit_code) + " but the single runs " + (any_nz ? "report" : "report no") + " failure";
		}
		return v;
	}

	std::vector<Plan> candidates(const Plan &p) override
	{
		std::vector<Plan> out;
		RCfg c;
		if (!resolve_cfg(p, c))
			return out;
		size_t nfixed = (size_t)p.ipar("nfixed", 1);
		if (c.vkind == 3) {
			size_t nz = (size_t)p.ipar("nzones", 1);
			for (size_t i = nfixed + nz; i < p.argv.size() && p.argv.size() > nfixed + nz + 1; i++) {
				Plan q = p;
				q.argv.erase(q.argv.begin() + i);
				out.push_back(q);
			}
			for (size_t i = nfixed; i < nfixed + nz && nz > 1; i++) {
				Plan q = p;
				q.argv.erase(q.argv.begin() + i);
				q.par["nzones"] = std::to_string(nz - 1);
				out.push_back(q);
			}
			return out;
		}
		if (c.mode == 0) {
			std::vector<std::string> vals(p.argv.begin() + std::min(nfixed, p.argv.size()), p.argv.end());
			for (auto &vv : chunk_removals(vals)) {
				if (vv.empty())
					continue;
				Plan q = p;
				q.argv.resize(nfixed);
				q.argv.insert(q.argv.end(), vv.begin(), vv.end());
				out.push_back(q);
			}
		} else {
			auto lines = split_lines_keep(p.input);
			for (auto &vv : chunk_removals(lines)) {
				if (vv.empty())
					continue;
				Plan q = p;
				q.input = join(vv);
				out.push_back(q);
			}
		}
		if (p.clock.per_read_s) {
			Plan q = p;
			q.clock.per_read_s = 0;
			out.push_back(q);
		}
		if (p.clock.step_us) {
			Plan q = p;
			q.clock.step_us = 0;
			out.push_back(q);
		}
		return out;
	}
};

} /* anon */

Engine *make_hist_engine() { return new HistEngine(); }

} /* namespace sim */
