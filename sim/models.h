/* models.h -- small executable reference models used as oracles */
#pragma once
#include <stdint.h>
#include <string>
#include <vector>
#include <string.h>

namespace model {

/* civil calendar (proleptic Gregorian), days since 1970-01-01; Howard Hinnant's algorithms */
static inline int64_t days_from_civil(int64_t y, unsigned m, unsigned d)
{
	y -= m <= 2;
	const int64_t era = (y >= 0 ? y : y - 399) / 400;
	const unsigned yoe = (unsigned)(y - era * 400);
	const unsigned doy = (153 * (m + (m > 2 ? -3 : 9)) + 2) / 5 + d - 1;
	const unsigned doe = yoe * 365 + yoe / 4 - yoe / 100 + doy;
	return era * 146097 + (int64_t)doe - 719468;
}
static inline void civil_from_days(int64_t z, int64_t &y, unsigned &m, unsigned &d)
{
	z += 719468;
	const int64_t era = (z >= 0 ? z : z - 146096) / 146097;
	const unsigned doe = (unsigned)(z - era * 146097);
	const unsigned yoe = (doe - doe / 1460 + doe / 36524 - doe / 146096) / 365;
	y = (int64_t)yoe + era * 400;
	const unsigned doy = doe - (365 * yoe + yoe / 4 - yoe / 100);
	const unsigned mp = (5 * doy + 2) / 153;
	d = doy - (153 * mp + 2) / 5 + 1;
	m = mp + (mp < 10 ? 3 : -9);
	y += m <= 2;
}
static inline bool is_leap(int64_t y) { return (y % 4 == 0 && y % 100 != 0) || y % 400 == 0; }
static inline unsigned mdays(int64_t y, unsigned m)
{
	static const unsigned t[] = {31, 28, 31, 30, 31, 30, 31, 31, 30, 31, 30, 31};
	return m == 2 && is_leap(y) ? 29 : t[m - 1];
}
/* 0 = Monday .. 6 = Sunday */
static inline unsigned weekday(int64_t days) { return (unsigned)(((days % 7) + 7 + 3) % 7); }

struct Civil {
	int64_t y;
	unsigned mo, d, h, mi, s;
};
static inline Civil civil_from_epoch(int64_t t)
{
	Civil c;
	int64_t days = t >= 0 ? t / 86400 : -((-t + 86399) / 86400);
	int64_t rem = t - days * 86400;
	civil_from_days(days, c.y, c.mo, c.d);
	c.h = (unsigned)(rem / 3600);
	c.mi = (unsigned)(rem % 3600 / 60);
	c.s = (unsigned)(rem % 60);
	return c;
}
static inline int64_t epoch_from_civil(int64_t y, unsigned mo, unsigned d, unsigned h, unsigned mi, unsigned s)
{
	return days_from_civil(y, mo, d) * 86400 + h * 3600 + mi * 60 + s;
}
static inline std::string fmt_iso(int64_t t)
{
	Civil c = civil_from_epoch(t);
	char b[64];
	snprintf(b, sizeof(b), "%04lld-%02u-%02uT%02u:%02u:%02u", (long long)c.y, c.mo, c.d, c.h, c.mi, c.s);
	return b;
}

/* ---- TZif reference reader: independent of lib/tzraw.c ---- */
struct TzEntry {
	int64_t t;
	int type;
	int32_t off;
};
struct TzModel {
	bool ok = false;
	int version = 0;
	std::vector<int64_t> raw_t;	/* as listed */
	std::vector<int> raw_ty;
	std::vector<int32_t> type_off;
	std::vector<TzEntry> ent;	/* merged view: a listed transition to the type already in force is no entry */
	int32_t off_at(int64_t t, bool *defined = nullptr) const
	{
		if (defined)
			*defined = true;
		if (ent.empty()) {
			return type_off.empty() ? 0 : type_off[0];
		}
		if (t < ent[0].t) {
			if (defined)
				*defined = false;
			return type_off.empty() ? 0 : type_off[0];
		}
		size_t lo = 0, hi = ent.size();	/* last i with ent[i].t <= t */
		while (hi - lo > 1) {
			size_t mid = lo + (hi - lo) / 2;
			if (ent[mid].t <= t)
				lo = mid;
			else
				hi = mid;
		}
		return ent[lo].off;
	}
	/* index of the entry in force at t, -1 before the first */
	long idx_at(int64_t t) const
	{
		long r = -1;
		size_t lo = 0, hi = ent.size();
		while (lo < hi) {
			size_t mid = lo + (hi - lo) / 2;
			if (ent[mid].t <= t) {
				r = (long)mid;
				lo = mid + 1;
			} else
				hi = mid;
		}
		return r;
	}
};
static inline uint32_t be32(const unsigned char *p) { return (uint32_t)p[0] << 24 | (uint32_t)p[1] << 16 | (uint32_t)p[2] << 8 | p[3]; }
static inline int64_t be64(const unsigned char *p) { return (int64_t)((uint64_t)be32(p) << 32 | be32(p + 4)); }

static inline TzModel tz_parse(const std::string &img)
{
	TzModel m;
	const unsigned char *b = (const unsigned char *)img.data();
	size_t n = img.size();
	if (n < 44 || memcmp(b, "TZif", 4))
		return m;
	int ver = b[4];
	if (ver != 0 && ver != '2' && ver != '3' && ver != '4')
		return m;
	size_t hdr = 0;
	auto cnt = [&](size_t h, int i) { return (size_t)be32(b + h + 20 + 4 * i); };	/* isgmt,isstd,leap,time,type,char */
	size_t tsz = 4;
	if (ver != 0) {
		size_t skip = 44 + cnt(0, 3) * 5 + cnt(0, 4) * 6 + cnt(0, 5) + cnt(0, 2) * 8 + cnt(0, 1) + cnt(0, 0);
		if (skip + 44 > n || memcmp(b + skip, "TZif", 4))
			return m;
		hdr = skip;
		tsz = 8;
	}
	size_t ntr = cnt(hdr, 3), nty = cnt(hdr, 4);
	size_t p = hdr + 44;
	if (p + ntr * tsz + ntr + nty * 6 > n)
		return m;
	for (size_t i = 0; i < ntr; i++)
		m.raw_t.push_back(tsz == 8 ? be64(b + p + 8 * i) : (int64_t)(int32_t)be32(b + p + 4 * i));
	p += ntr * tsz;
	for (size_t i = 0; i < ntr; i++)
		m.raw_ty.push_back(b[p + i]);
	p += ntr;
	for (size_t i = 0; i < nty; i++)
		m.type_off.push_back((int32_t)be32(b + p + 6 * i));
	for (size_t i = 0; i < ntr; i++) {
		if ((size_t)m.raw_ty[i] >= nty)
			return m;	/* not a well-formed file: no model */
		if (i > 0 && m.raw_ty[i] == m.raw_ty[i - 1])
			continue;	/* no-op transition */
		TzEntry e = {m.raw_t[i], m.raw_ty[i], m.type_off[m.raw_ty[i]]};
		m.ent.push_back(e);
	}
	m.version = ver;
	m.ok = true;
	return m;
}

} /* namespace model */
