/* vfork_shim.h -- force-included into the dsort translation unit only (-include).
 * vfork() becomes a setjmp in the caller's frame: the child branch runs first
 * against the child's descriptor table; execvp()/_exit() record what the child
 * did and longjmp back, after which the caller continues as the parent. */
#ifndef SIM_VFORK_SHIM_H
#define SIM_VFORK_SHIM_H
#include <unistd.h>
#include <setjmp.h>
#include <sys/types.h>
extern jmp_buf sim_vfork_jb;
extern pid_t sim_vfork_child(void);
extern pid_t sim_vfork_parent(void);
#undef vfork
#define vfork() (setjmp(sim_vfork_jb) ? sim_vfork_parent() : sim_vfork_child())
#endif
