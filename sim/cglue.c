/* cglue.c -- thin C wrappers so that the C++ engines can drive the parsing and
 * formatting entry points of libdut without including its C99-only headers */
#include <string.h>
#include <stddef.h>
#include "dt-core.h"
#include "dt-locale.h"

int glue_parse(const char *str, const char *fmt, char *out, size_t osz);
int glue_format(const char *iso, const char *fmt, char *out, size_t osz);
int glue_setilocale(const char *name);
int glue_setflocale(const char *name);

/* parse STR with FMT, print the result as %F into OUT; -1 if it does not parse, else length */
int
glue_parse(const char *str, const char *fmt, char *out, size_t osz)
{
	char *ep = NULL;
	struct dt_dt_s d = dt_strpdt(str, fmt, &ep);

	if (dt_unk_p(d)) {
		return -1;
	}
	if (ep != NULL && *ep != '\0') {
		return -2;
	}
	return (int)dt_strfdt(out, osz, "%F", d);
}

/* format the ISO date ISO with FMT into OUT */
int
glue_format(const char *iso, const char *fmt, char *out, size_t osz)
{
	struct dt_dt_s d = dt_strpdt(iso, "%F", NULL);

	if (dt_unk_p(d)) {
		return -1;
	}
	return (int)dt_strfdt(out, osz, fmt, d);
}

int
glue_setilocale(const char *name)
{
	return setilocale(name);
}

int
glue_setflocale(const char *name)
{
	return setflocale(name);
}
