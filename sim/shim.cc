/* shim.cc -- every seam of the simulation: __wrap_* for the libc calls the
 * repo code makes, virtual fds/files/pipes/processes, clock, environment,
 * guard-paged mmap, allocator faults.
 *
 * Linked with -Wl,--wrap=<sym> so that only references from the objects of
 * this link (repo code and simulator) are redirected; libc internals are not. */
#include "sim.h"
#include <stdio.h>
#include <stdlib.h>
#include <string.h>
#include <stdarg.h>
#include <errno.h>
#include <unistd.h>
#include <fcntl.h>
#include <signal.h>
#include <setjmp.h>
#include <time.h>
#include <locale.h>
#include <sys/mman.h>
#include <sys/stat.h>
#include <sys/time.h>
#include <sys/wait.h>
#include <sys/resource.h>
#include <memory>
#include <deque>
#include <algorithm>
#include <array>

#if defined(__has_feature)
# if __has_feature(address_sanitizer)
#  define SIM_ASAN 1
# endif
#endif
#if !defined(SIM_ASAN) && defined(__SANITIZE_ADDRESS__)
# define SIM_ASAN 1
#endif
#if !defined(SIM_ASAN)
# define SIM_ASAN 0
#endif
#if SIM_ASAN
# include <sanitizer/asan_interface.h>
#endif

extern "C" {
ssize_t __real_read(int, void *, size_t);
ssize_t __real_write(int, const void *, size_t);
int __real_open(const char *, int, ...);
int __real_close(int);
int __real_fstat(int, struct stat *);
int __real_stat(const char *, struct stat *);
void *__real_mmap(void *, size_t, int, int, int, off_t);
int __real_munmap(void *, size_t);
char *__real_getenv(const char *);
void *__real_malloc(size_t);
void *__real_calloc(size_t, size_t);
void *__real_realloc(void *, size_t);
int __real_gettimeofday(struct timeval *, void *);
time_t __real_time(time_t *);
FILE *__real_fopen(const char *, const char *);
int __real_dup2(int, int);
int __real_pipe(int[2]);
pid_t __real_waitpid(pid_t, int *, int);
int __real_execvp(const char *, char *const[]);
void __real__exit(int) __attribute__((noreturn));
struct tm *__real_localtime(const time_t *);
struct tm *__real_localtime_r(const time_t *, struct tm *);
time_t __real_mktime(struct tm *);
void __real_tzset(void);
size_t __real_strftime(char *, size_t, const char *, const struct tm *);
char *__real_strptime(const char *, const char *, struct tm *);
char *__real_setlocale(int, const char *);
int __real_unlink(const char *);
off_t __real_lseek(int, off_t, int);
int __real_posix_fadvise(int, off_t, off_t, int);
}

namespace sim {

/* ====================== shared page, events ====================== */
static Shared *g_sh;
Shared *shared() { return g_sh; }
void set_shared(Shared *s) { g_sh = s; }

const char *const probe_names[] = {
	"reads", "read_1byte", "read_split_line", "read_crlf_split", "read_eof", "read_after_eof",
	"read_err", "read_outside_window", "anon_mmap", "file_mmap", "open", "open_enoent", "open_fault",
	"fstat_fault", "mmap_fault", "malloc_fault", "clock_reads", "clock_jump", "clock_fail",
	"getenv", "libc_time_facility", "libc_locale_facility", "write_short", "write_fault", "pipe_full", "vfork",
	"exec", "waitpid", "sched_step", "unlink", "passthru_open", "stat", "fopen", "guard_segv",
	"window_refill", 0
};

static uint64_t g_max_events = 4000000;
static bool g_active;	/* seams live (inside an incarnation) */

uint64_t hash_mix(uint64_t h, uint64_t v)
{
	h ^= v + 0x9e3779b97f4a7c15ULL + (h << 6) + (h >> 2);
	h *= 0xff51afd7ed558ccdULL;
	h ^= h >> 33;
	return h;
}
uint64_t hash_bytes(uint64_t h, const void *p, size_t n)
{
	const unsigned char *c = (const unsigned char *)p;
	uint64_t x = 0xcbf29ce484222325ULL ^ h;
	for (size_t i = 0; i < n; i++) {
		x ^= c[i];
		x *= 0x100000001b3ULL;
	}
	return hash_mix(h, x ^ n);
}
uint64_t hash_str(uint64_t h, const std::string &s) { return hash_bytes(h, s.data(), s.size()); }
uint64_t run_seed(uint64_t seed, const std::string &engine, uint64_t idx)
{
	return hash_mix(hash_str(hash_mix(0x5eed, seed), engine), idx);
}

void ev(const char *fmt, ...)
{
	if (!g_sh)
		return;
	char buf[256];
	va_list ap;
	va_start(ap, fmt);
	int n = vsnprintf(buf, sizeof(buf), fmt, ap);
	va_end(ap);
	if (n < 0)
		return;
	if ((size_t)n >= sizeof(buf))
		n = sizeof(buf) - 1;
	g_sh->loghash = hash_bytes(g_sh->loghash, buf, n);
	g_sh->nevents++;
	if (g_sh->trace_len + n + 1 < sizeof(g_sh->trace)) {
		memcpy(g_sh->trace + g_sh->trace_len, buf, n);
		g_sh->trace_len += n;
		g_sh->trace[g_sh->trace_len++] = '\n';
	} else {
		g_sh->trace_trunc = 1;
	}
	if (g_active && g_sh->nevents > g_max_events) {
		g_sh->flags |= F_STEP_BUDGET;
		if (!g_sh->note[0])
			snprintf(g_sh->note, sizeof(g_sh->note), "seam-call budget of %llu exhausted",
				 (unsigned long long)g_max_events);
		__real__exit(79);
	}
}
void probe(Probe p, uint64_t n)
{
	if (g_sh)
		g_sh->probes[p] += n;
}
void flag(uint32_t f, const char *fmt, ...)
{
	if (!g_sh)
		return;
	g_sh->flags |= f;
	if (!g_sh->note[0]) {
		va_list ap;
		va_start(ap, fmt);
		vsnprintf(g_sh->note, sizeof(g_sh->note), fmt, ap);
		va_end(ap);
	}
}
void blob_append(const std::string &s)
{
	if (!g_sh)
		return;
	size_t n = s.size();
	if (g_sh->blob_len + n > sizeof(g_sh->blob))
		n = sizeof(g_sh->blob) - g_sh->blob_len;
	memcpy(g_sh->blob + g_sh->blob_len, s.data(), n);
	g_sh->blob_len += n;
}

/* ====================== simulated world ====================== */
struct FileObj {
	std::string path;
	std::string data;
	bool exists = true;
	bool writable_created = false;
};
struct Pipe {
	std::deque<char> buf;
	size_t cap = 65536;
	int readers = 0, writers = 0;
	int id = 0;
};
struct FdObj {
	enum Kind { STREAM, FILE_, PIPE_R, PIPE_W, REAL } kind = REAL;
	std::shared_ptr<FileObj> f;
	size_t pos = 0;
	int oflags = 0;
	std::shared_ptr<Pipe> p;
	int realfd = -1;
	bool eof_seen = false;
	~FdObj()
	{
		if (kind == PIPE_R && p)
			p->readers--;
		if (kind == PIPE_W && p)
			p->writers--;
	}
};
typedef std::map<int, std::shared_ptr<FdObj>> FdTable;

struct Proc {
	int pid = 0;
	std::string prog;		/* "tool", "sort", "cut" */
	std::vector<std::string> argv;
	FdTable fds;
	bool exited = false;
	int status = 0;
	bool reaped = false;
	/* stub state */
	std::string inbuf;		/* sort: everything read so far; cut: partial line */
	std::string outbuf;		/* pending output */
	bool in_eof = false;
	bool sorted = false;
};

struct Mapping {
	char *base;		/* address handed to the program */
	size_t len;		/* length the program asked for */
	char *real_base;	/* start incl. leading guard */
	size_t real_len;
	bool anon;
};

struct World {
	Plan plan;
	std::map<std::string, std::shared_ptr<FileObj>> fs;
	std::vector<std::unique_ptr<Proc>> procs;
	Proc *cur = nullptr;	/* process whose code is executing (tool or vfork child) */
	Proc *tool = nullptr;
	std::vector<Mapping> maps;
	/* stream */
	size_t sched_i = 0;	/* number of reads issued */
	std::vector<bool> sched_fault_fired;
	bool sticky_err = false;
	int sticky_errno = 0;
	/* clock */
	int64_t now_s = 0, now_us = 0;
	int64_t clock_calls = 0;
	/* env */
	std::map<std::string, std::string> env;
	std::map<std::string, std::unique_ptr<std::string>> env_store;
	/* allocator faults */
	int64_t alloc_calls = 0;
	int64_t alloc_fail_at = -1;	/* 1-based index of the malloc-family call that fails */
	bool alloc_armed = false;
	/* syscall faults: kind -> (nth call -> errno) */
	std::map<std::string, std::map<int64_t, int>> sysfault;
	std::map<std::string, int64_t> syscount;
	/* write faults for created files */
	int next_fd = 100;
	int next_pid = 5000;
	int next_pipe = 1;
	/* process sim */
	size_t psched_i = 0;
	bool in_vfork_child = false;
	Proc *vfork_parent = nullptr;
	/* libc locale simulation */
	bool locale_active = false;
	std::string locale_name;
};
static World *W;

static int sysfault_check(const char *kind)
{
	if (!W)
		return 0;
	int64_t n = ++W->syscount[kind];
	auto it = W->sysfault.find(kind);
	if (it == W->sysfault.end())
		return 0;
	auto jt = it->second.find(n);
	if (jt == it->second.end()) {
		jt = it->second.find(0);	/* 0 = every call */
		if (jt == it->second.end())
			return 0;
	}
	return jt->second;
}

bool real_file_bytes(const std::string &path, std::string &out)
{
	int fd = __real_open(path.c_str(), O_RDONLY);
	if (fd < 0)
		return false;
	struct stat st;
	if (__real_fstat(fd, &st) < 0 || !S_ISREG(st.st_mode)) {
		__real_close(fd);
		return false;
	}
	out.clear();
	char buf[65536];
	ssize_t n;
	while ((n = __real_read(fd, buf, sizeof(buf))) > 0)
		out.append(buf, n);
	__real_close(fd);
	return true;
}

static bool passthru_path(const std::string &p)
{
	return p.compare(0, 20, "/usr/share/zoneinfo/") == 0 || p == "/etc/localtime";
}

static std::shared_ptr<FileObj> fs_lookup(const std::string &path)
{
	auto it = W->fs.find(path);
	if (it != W->fs.end())
		return it->second->exists ? it->second : nullptr;
	if (passthru_path(path)) {
		std::string data;
		if (real_file_bytes(path, data)) {
			auto f = std::make_shared<FileObj>();
			f->path = path;
			f->data = data;
			W->fs[path] = f;
			probe(P_PASSTHRU_OPEN);
			return f;
		}
	}
	return nullptr;
}

static std::shared_ptr<FdObj> fd_get(int fd)
{
	if (!W || !W->cur)
		return nullptr;
	auto it = W->cur->fds.find(fd);
	return it == W->cur->fds.end() ? nullptr : it->second;
}

static int fd_alloc(Proc *p, std::shared_ptr<FdObj> o)
{
	int fd = W->next_fd++;
	p->fds[fd] = o;
	return fd;
}

/* ---------- mapping bookkeeping ---------- */
static const size_t PG = 4096;
static size_t pgup(size_t n) { return (n + PG - 1) / PG * PG; }

static char *guarded_alloc(size_t len, bool anon, const std::string *content)
{
	size_t body = pgup(len ? len : 1);
	size_t total = body + 2 * PG;
	char *r = (char *)__real_mmap(NULL, total, PROT_READ | PROT_WRITE, MAP_PRIVATE | MAP_ANONYMOUS, -1, 0);
	if (r == MAP_FAILED)
		return NULL;
	mprotect(r, PG, PROT_NONE);
	mprotect(r + PG + body, PG, PROT_NONE);
	char *base = r + PG;
	if (content)
		memcpy(base, content->data(), std::min(len, content->size()));
#if SIM_ASAN
	if (body > len)
		__asan_poison_memory_region(base + len, body - len);
#endif
	Mapping m = {base, len, r, total, anon};
	W->maps.push_back(m);
	return base;
}

static Mapping *map_find(const void *p)
{
	if (!W)
		return nullptr;
	for (auto &m : W->maps)
		if ((const char *)p >= m.base && (const char *)p < m.base + pgup(m.len ? m.len : 1))
			return &m;
	return nullptr;
}

/* ---------- the stream: scheduled delivery ---------- */
enum { RD_MAX = 0, RD_NL = 1, RD_NL1 = 2, RD_CR = 3, RD_ALL = 4 };

static ssize_t deliver(const std::string &src, size_t &pos, void *buf, size_t count, const char *what, FdObj *o)
{
	World &w = *W;
	probe(P_READS);
	size_t idx = w.sched_i++;
	size_t remaining = src.size() - pos;
	Op dflt;
	dflt.kind = "rd";
	dflt.a = {RD_ALL, 0, 0};
	const Op &op = w.plan.sched.empty() ? dflt : w.plan.sched[idx % w.plan.sched.size()];
	size_t opi = w.plan.sched.empty() ? 0 : idx % w.plan.sched.size();

	/* the target range must stay inside the mapping it starts in */
	size_t room = count;
	Mapping *m = map_find(buf);
	if (m) {
		size_t avail = (m->base + m->len) - (char *)buf;
		if ((char *)buf >= m->base + m->len)
			avail = 0;
		if (count > avail) {
			probe(P_READ_OUTSIDE);
			flag(F_READ_OUTSIDE, "read(%s) target [+%zu,+%zu) leaves its %zu-byte mapping",
			     what, (size_t)((char *)buf - m->base), (size_t)((char *)buf - m->base) + count, m->len);
			ev("read %s target outside mapping off=%zu count=%zu maplen=%zu", what,
			   (size_t)((char *)buf - m->base), count, m->len);
			room = avail;
			if (room == 0) {
				/* what the kernel does for a wholly unmapped target */
				errno = EFAULT;
				return -1;
			}
		}
	}
	if (w.sticky_err) {
		probe(P_READ_ERR);
		ev("read %s #%zu -> -1 errno=%d (sticky)", what, idx, w.sticky_errno);
		errno = w.sticky_errno;
		return -1;
	}
	/* fault attached to this schedule op, fires once */
	int64_t ferr = op.arg(2);
	if (ferr && !w.plan.sched.empty()) {
		if (w.sched_fault_fired.size() < w.plan.sched.size())
			w.sched_fault_fired.resize(w.plan.sched.size(), false);
		if (!w.sched_fault_fired[opi]) {
			w.sched_fault_fired[opi] = true;
			int e = (int)(ferr < 0 ? -ferr : ferr);
			if (ferr < 0) {
				w.sticky_err = true;
				w.sticky_errno = e;
			}
			probe(P_READ_ERR);
			ev("read %s #%zu -> -1 errno=%d%s at byte %zu", what, idx, e, ferr < 0 ? " sticky" : "", pos);
			errno = e;
			return -1;
		}
	}
	if (remaining == 0) {
		if (o && o->eof_seen)
			probe(P_READ_AFTER_EOF);
		probe(P_READ_EOF);
		if (o)
			o->eof_seen = true;
		ev("read %s #%zu -> 0 (eof)", what, idx);
		return 0;
	}
	size_t n = remaining;
	const char *d = src.data() + pos;
	switch (op.arg(0)) {
	case RD_MAX:
		n = (size_t)std::max<int64_t>(1, op.arg(1, 1));
		break;
	case RD_NL: {
		const char *q = (const char *)memchr(d, '\n', remaining);
		n = q ? (size_t)(q - d) + 1 : remaining;
		break;
	}
	case RD_NL1: {
		const char *q = (const char *)memchr(d, '\n', remaining);
		n = q ? (size_t)(q - d) + 2 : remaining;
		break;
	}
	case RD_CR: {
		const char *q = (const char *)memchr(d, '\r', remaining);
		n = q ? (size_t)(q - d) + 1 : remaining;
		break;
	}
	default:
		n = remaining;
		break;
	}
	n = std::min(n, std::min(remaining, room));
	if (n == 0)
		n = 1;
	memcpy(buf, d, n);
	if (n == 1)
		probe(P_READ_1BYTE);
	if (pos + n < src.size()) {
		if (d[n - 1] != '\n')
			probe(P_READ_SPLIT_LINE);
		if (d[n - 1] == '\r' && d[n] == '\n')
			probe(P_READ_CRLF_SPLIT);
	}
	ev("read %s #%zu want=%zu -> %zu at byte %zu", what, idx, count, n, pos);
	pos += n;
	if (w.plan.clock.per_read_s)
		w.now_s += w.plan.clock.per_read_s;
	return (ssize_t)n;
}

/* ---------- process simulator (datesort) ---------- */
static bool proc_step(Proc *p);
static void proc_exit(Proc *p, int status)
{
	p->exited = true;
	p->status = status;
	p->fds.clear();
	ev("proc %d (%s) exits %d", p->pid, p->prog.c_str(), status);
}

/* sort(1) keys as given on its command line: -t SEP, -k F[,G] (whole fields, no character offsets or flags).
 * Key F[,G] runs from the start of field F to the end of field G (end of line without G), bytewise
 * (C locale); keys are compared in order, last resort is the whole line. */
struct SortSpec {
	char sep = '\0';
	std::vector<std::pair<int, int>> keys;	/* (F, G) with G = 0 for end of line */
	bool rev = false, uniq = false, ok = true;
};
static SortSpec sort_spec(const std::vector<std::string> &argv)
{
	SortSpec sp;
	for (size_t i = 1; i < argv.size(); i++) {
		const std::string &a = argv[i];
		if (a == "-r")
			sp.rev = true;
		else if (a == "-u")
			sp.uniq = true;
		else if (a.compare(0, 2, "-t") == 0 && a.size() == 3)
			sp.sep = a[2];
		else if (a == "-t" && i + 1 < argv.size() && argv[i + 1].size() == 1)
			sp.sep = argv[++i][0];
		else if (a.compare(0, 2, "-k") == 0) {
			std::string k = a.size() > 2 ? a.substr(2) : i + 1 < argv.size() ? argv[++i] : "";
			int f = 0, g = 0;
			char tail = 0;
			int n = sscanf(k.c_str(), "%d,%d%c", &f, &g, &tail);
			if (n < 1 || f < 1 || n == 3 || (n == 1 && k.find_first_not_of("0123456789") != std::string::npos))
				sp.ok = false;
			sp.keys.push_back({f, n >= 2 ? g : 0});
		} else
			sp.ok = false;
	}
	return sp;
}
static std::string sort_key(const SortSpec &sp, const std::string &s, std::pair<int, int> k)
{
	if (!sp.sep)
		return s;
	/* field boundaries */
	size_t start = 0;
	for (int f = 1; f < k.first; f++) {
		size_t i = s.find(sp.sep, start);
		if (i == std::string::npos)
			return std::string();
		start = i + 1;
	}
	if (k.second == 0)
		return s.substr(start);
	size_t end = start;
	for (int f = k.first; f <= k.second; f++) {
		size_t i = s.find(sp.sep, end);
		if (i == std::string::npos)
			return s.substr(start);
		if (f == k.second)
			return s.substr(start, i - start);
		end = i + 1;
	}
	return s.substr(start);
}
static int field_cmp(const SortSpec &sp, const std::string &a, const std::string &b, bool last_resort)
{
	for (auto &k : sp.keys) {
		int c = sort_key(sp, a, k).compare(sort_key(sp, b, k));
		if (c)
			return c;
	}
	if (sp.keys.empty() || last_resort)
		return a.compare(b);
	return 0;
}

/* how many bytes the next pipe transfer may move: taken from the plan's process schedule */
static size_t psched_chunk(size_t want)
{
	World &w = *W;
	const std::vector<Op> &ops = w.plan.ops;
	size_t n = 0;
	for (auto &o : ops)
		if (o.kind == "xfer")
			n++;
	if (!n)
		return want;
	/* cyclic over the xfer ops */
	size_t k = w.psched_i++ % n, j = 0;
	for (auto &o : ops) {
		if (o.kind != "xfer")
			continue;
		if (j++ == k) {
			int64_t m = o.arg(0, 0);
			if (m <= 0)
				return want;
			return std::min<size_t>(want, (size_t)m);
		}
	}
	return want;
}

static ssize_t obj_write(FdObj *o, const char *buf, size_t n, bool may_short);

static bool proc_step(Proc *p)
{
	/* one step of a stub process; returns false if it could not make progress */
	if (p->exited)
		return false;
	probe(P_SCHED_STEP);
	auto in = p->fds.count(0) ? p->fds[0] : nullptr;
	auto out = p->fds.count(1) ? p->fds[1] : nullptr;
	/* 1. try to push pending output */
	if (!p->outbuf.empty()) {
		if (!out) {
			proc_exit(p, 2);
			return true;
		}
		ssize_t k = obj_write(out.get(), p->outbuf.data(), psched_chunk(p->outbuf.size()), true);
		if (k > 0) {
			p->outbuf.erase(0, k);
			return true;
		}
		if (k < 0) {
			proc_exit(p, 2);
			return true;
		}
		return false;	/* blocked on output */
	}
	/* 2. finished? */
	if (p->in_eof) {
		if (p->prog == "sort" && !p->sorted) {
			std::vector<std::string> lines;
			size_t s = 0;
			while (s < p->inbuf.size()) {
				size_t e = p->inbuf.find('\n', s);
				if (e == std::string::npos)
					e = p->inbuf.size();
				lines.push_back(p->inbuf.substr(s, e - s));
				s = e + 1;
			}
			SortSpec sp = sort_spec(p->argv);
			if (!sp.ok) {
				std::string cmd;
				for (auto &a : p->argv)
					cmd += a + " ";
				flag(F_UNSIM, "sort started with arguments the stub does not model: %s", cmd.c_str());
			}
			bool rev = sp.rev, uniq = sp.uniq;
			std::stable_sort(lines.begin(), lines.end(), [&](const std::string &a, const std::string &b) {
				int c = field_cmp(sp, a, b, !uniq);
				return rev ? c > 0 : c < 0;
			});
			std::string prevline;
			bool have = false;
			for (auto &l : lines) {
				if (uniq) {
					if (have && field_cmp(sp, prevline, l, false) == 0)
						continue;
					prevline = l;
					have = true;
				}
				p->outbuf += l;
				p->outbuf += '\n';
			}
			p->inbuf.clear();
			p->sorted = true;
			ev("proc %d sort: %zu lines", p->pid, lines.size());
			return true;
		}
		if (p->prog == "cut" && !p->inbuf.empty()) {
			/* unterminated last line: cut adds the newline */
			size_t i = p->inbuf.find('\001');
			p->outbuf += p->inbuf.substr(0, i);
			p->outbuf += '\n';
			p->inbuf.clear();
			return true;
		}
		proc_exit(p, 0);
		return true;
	}
	/* 3. read some input */
	if (!in || in->kind != FdObj::PIPE_R) {
		p->in_eof = true;
		return true;
	}
	Pipe *pp = in->p.get();
	if (pp->buf.empty()) {
		if (pp->writers == 0) {
			p->in_eof = true;
			ev("proc %d (%s) sees eof on pipe %d", p->pid, p->prog.c_str(), pp->id);
			return true;
		}
		return false;	/* blocked on input */
	}
	size_t k = psched_chunk(pp->buf.size());
	std::string chunk(pp->buf.begin(), pp->buf.begin() + k);
	pp->buf.erase(pp->buf.begin(), pp->buf.begin() + k);
	ev("proc %d (%s) reads %zu from pipe %d", p->pid, p->prog.c_str(), k, pp->id);
	if (p->prog == "sort") {
		p->inbuf += chunk;
	} else {
		/* cut -d^A -f1: stream complete lines */
		p->inbuf += chunk;
		size_t s = 0, e;
		while ((e = p->inbuf.find('\n', s)) != std::string::npos) {
			std::string l = p->inbuf.substr(s, e - s);
			size_t i = l.find('\001');
			p->outbuf += l.substr(0, i);
			p->outbuf += '\n';
			s = e + 1;
		}
		p->inbuf.erase(0, s);
	}
	return true;
}

/* run stub processes: up to MAXSTEPS steps chosen by the plan; returns whether anything moved */
static bool run_stubs(int64_t maxsteps)
{
	World &w = *W;
	bool moved = false;
	for (int64_t i = 0; i < maxsteps; i++) {
		std::vector<Proc *> cand;
		for (auto &p : w.procs)
			if (p.get() != w.tool && !p->exited && !p->prog.empty() && p->prog != "vchild")
				cand.push_back(p.get());
		if (cand.empty())
			break;
		/* order of attempts decided by the plan */
		size_t start = psched_chunk(1u << 30) % cand.size();
		bool any = false;
		for (size_t k = 0; k < cand.size(); k++) {
			Proc *p = cand[(start + k) % cand.size()];
			if (proc_step(p)) {
				any = true;
				break;
			}
		}
		if (!any)
			break;
		moved = true;
	}
	return moved;
}

static ssize_t obj_write(FdObj *o, const char *buf, size_t n, bool may_short)
{
	switch (o->kind) {
	case FdObj::REAL: {
		ssize_t r = __real_write(o->realfd, buf, n);
		return r;
	}
	case FdObj::FILE_: {
		if ((o->oflags & O_ACCMODE) == O_RDONLY) {
			errno = EBADF;
			return -1;
		}
		int e = sysfault_check("write");
		if (e > 0) {
			probe(P_WRITE_FAULT);
			ev("write %s -> -1 errno=%d", o->f->path.c_str(), e);
			errno = e;
			return -1;
		}
		size_t k = n;
		if (e < 0) {
			/* short write: -e bytes at most */
			k = std::min<size_t>(n, (size_t)(-e));
			probe(P_WRITE_SHORT);
		}
		if (o->pos > o->f->data.size())
			o->f->data.resize(o->pos, '\0');
		o->f->data.replace(o->pos, std::min(k, o->f->data.size() - o->pos), std::string(buf, k));
		o->pos += k;
		ev("write %s %zu -> %zu", o->f->path.c_str(), n, k);
		return (ssize_t)k;
	}
	case FdObj::PIPE_W: {
		Pipe *pp = o->p.get();
		if (pp->readers == 0) {
			ev("write pipe %d -> EPIPE", pp->id);
			errno = EPIPE;
			return -1;
		}
		size_t space = pp->cap > pp->buf.size() ? pp->cap - pp->buf.size() : 0;
		if (!space)
			return 0;	/* caller decides how to block */
		size_t k = std::min(n, space);
		if (may_short)
			k = std::min(k, psched_chunk(k));
		if (k < n)
			probe(P_WRITE_SHORT);
		pp->buf.insert(pp->buf.end(), buf, buf + k);
		ev("write pipe %d %zu -> %zu", pp->id, n, k);
		return (ssize_t)k;
	}
	default:
		errno = EBADF;
		return -1;
	}
}

static jmp_buf *g_vfork_jb;

} /* namespace sim */

using namespace sim;

/* ====================== the wrappers ====================== */
extern "C" {

/* ---- vfork emulation, see sim/vfork_shim.h ---- */
jmp_buf sim_vfork_jb;
pid_t sim_vfork_child(void)
{
	World &w = *W;
	probe(P_VFORK);
	auto c = std::make_unique<Proc>();
	c->pid = w.next_pid++;
	c->prog = "vchild";
	c->fds = w.cur->fds;	/* the child shares the descriptions, owns its table */
	for (auto &kv : c->fds) {
		if (kv.second->kind == FdObj::PIPE_R || kv.second->kind == FdObj::PIPE_W)
			;	/* same description, no new reader/writer */
	}
	w.vfork_parent = w.cur;
	w.cur = c.get();
	w.in_vfork_child = true;
	ev("vfork -> child %d", c->pid);
	w.procs.push_back(std::move(c));
	return 0;
}
pid_t sim_vfork_parent(void)
{
	World &w = *W;
	Proc *child = w.cur;
	w.cur = w.vfork_parent;
	w.in_vfork_child = false;
	ev("vfork returns %d in parent", child->pid);
	return child->pid;
}

int __wrap_execvp(const char *file, char *const argv[])
{
	if (!g_active || !W)
		return __real_execvp(file, argv);
	World &w = *W;
	probe(P_EXEC);
	if (!w.in_vfork_child) {
		flag(F_UNSIM, "execvp(%s) outside a vfork child", file);
		__real__exit(80);
	}
	Proc *c = w.cur;
	c->prog = file;
	c->argv.clear();
	std::string line;
	for (int i = 0; argv[i]; i++) {
		c->argv.push_back(argv[i]);
		line += " ";
		line += cquote(argv[i], 40);
	}
	std::string fdl;
	for (auto &kv : c->fds) {
		char b[64];
		FdObj *o = kv.second.get();
		snprintf(b, sizeof(b), " %d:%s%d", kv.first,
			 o->kind == FdObj::PIPE_R ? "r" : o->kind == FdObj::PIPE_W ? "w" :
			 o->kind == FdObj::REAL ? "real" : o->kind == FdObj::STREAM ? "in" : "file",
			 o->p ? o->p->id : o->realfd);
		fdl += b;
	}
	ev("exec pid %d:%s fds%s", c->pid, line.c_str(), fdl.c_str());
	if (c->prog != "sort" && c->prog != "cut") {
		flag(F_UNSIM, "exec of unmodelled program %s", file);
		__real__exit(80);
	}
	longjmp(sim_vfork_jb, 1);
}

void __wrap__exit(int rc)
{
	if (g_active && W && W->in_vfork_child) {
		/* the vfork child gave up: it exits, the parent resumes */
		proc_exit(W->cur, rc);
		longjmp(sim_vfork_jb, 1);
	}
	__real__exit(rc);
}

int __wrap_pipe(int fds[2])
{
	if (!g_active || !W)
		return __real_pipe(fds);
	World &w = *W;
	int e = sysfault_check("pipe");
	if (e) {
		errno = e;
		return -1;
	}
	auto p = std::make_shared<Pipe>();
	p->id = w.next_pipe++;
	p->cap = (size_t)w.plan.ipar("pipecap", 65536);
	auto r = std::make_shared<FdObj>();
	r->kind = FdObj::PIPE_R;
	r->p = p;
	p->readers = 1;
	auto wr = std::make_shared<FdObj>();
	wr->kind = FdObj::PIPE_W;
	wr->p = p;
	p->writers = 1;
	/* lowest free descriptors like the kernel */
	int a = 0;
	while (w.cur->fds.count(a))
		a++;
	w.cur->fds[a] = r;
	int b = a + 1;
	while (w.cur->fds.count(b))
		b++;
	w.cur->fds[b] = wr;
	fds[0] = a;
	fds[1] = b;
	ev("pipe %d -> r=%d w=%d cap=%zu", p->id, a, b, p->cap);
	return 0;
}

int __wrap_dup2(int oldfd, int newfd)
{
	if (!g_active || !W)
		return __real_dup2(oldfd, newfd);
	auto o = fd_get(oldfd);
	if (!o) {
		flag(F_FD_MISUSE, "dup2 of closed fd %d", oldfd);
		ev("dup2 %d %d -> EBADF", oldfd, newfd);
		errno = EBADF;
		return -1;
	}
	if (oldfd == newfd)
		return newfd;
	W->cur->fds[newfd] = o;
	ev("dup2 %d -> %d (pid %d)", oldfd, newfd, W->cur->pid);
	return newfd;
}

pid_t __wrap_waitpid(pid_t pid, int *st, int opts)
{
	if (!g_active || !W)
		return __real_waitpid(pid, st, opts);
	World &w = *W;
	probe(P_WAITPID);
	Proc *t = nullptr;
	for (auto &p : w.procs)
		if (p->pid == pid)
			t = p.get();
	if (!t || t->reaped) {
		ev("waitpid %d -> ECHILD", (int)pid);
		errno = ECHILD;
		flag(F_FD_MISUSE, "waitpid for unknown or already reaped child %d", (int)pid);
		return -1;
	}
	while (!t->exited) {
		if (!run_stubs(1)) {
			flag(F_DEADLOCK, "waitpid(%d %s): no runnable process, pipeline cannot finish",
			     (int)pid, t->prog.c_str());
			ev("deadlock in waitpid %d", (int)pid);
			fflush(NULL);
			__real__exit(81);
		}
	}
	t->reaped = true;
	if (st)
		*st = (t->status & 0xff) << 8;
	ev("waitpid %d -> status %d", (int)pid, t->status);
	return pid;
}

/* ---- read / write / open / close ---- */
ssize_t __wrap_read(int fd, void *buf, size_t count)
{
	if (!g_active || !W)
		return __real_read(fd, buf, count);
	auto o = fd_get(fd);
	if (!o) {
		ev("read fd %d -> EBADF", fd);
		errno = EBADF;
		return -1;
	}
	switch (o->kind) {
	case FdObj::STREAM:
		return deliver(W->plan.input, o->pos, buf, count, "stdin", o.get());
	case FdObj::FILE_:
		return deliver(o->f->data, o->pos, buf, count, o->f->path.c_str(), o.get());
	case FdObj::REAL:
		return __real_read(o->realfd, buf, count);
	default:
		flag(F_UNSIM, "read on pipe end %d by the tool", fd);
		errno = EBADF;
		return -1;
	}
}

ssize_t __wrap_write(int fd, const void *buf, size_t n)
{
	if (!g_active || !W)
		return __real_write(fd, buf, n);
	World &w = *W;
	auto o = fd_get(fd);
	if (!o) {
		flag(F_FD_MISUSE, "write to closed fd %d", fd);
		ev("write fd %d -> EBADF", fd);
		errno = EBADF;
		return -1;
	}
	if (o->kind != FdObj::PIPE_W)
		return obj_write(o.get(), (const char *)buf, n, false);
	if (n == 0)
		return 0;
	/* a few scheduler steps before the write, as the plan dictates */
	run_stubs((int64_t)(psched_chunk(4) % 4));
	bool may_short = w.plan.ipar("shortwrites", 0) != 0;
	for (;;) {
		ssize_t k = obj_write(o.get(), (const char *)buf, n, may_short);
		if (k != 0)
			return k;
		/* pipe full: the writer blocks, others run */
		probe(P_PIPE_FULL);
		if (!run_stubs(1)) {
			flag(F_DEADLOCK, "write to full pipe %d: no runnable process", o->p->id);
			ev("deadlock in write to pipe %d", o->p->id);
			fflush(NULL);
			__real__exit(81);
		}
	}
}

static int sim_open(const char *path, int flags)
{
	World &w = *W;
	probe(P_OPEN);
	int e = sysfault_check("open");
	if (e) {
		probe(P_OPEN_FAULT);
		ev("open %s -> -1 errno=%d (fault)", path, e);
		errno = e;
		return -1;
	}
	/* the simulated process has a descriptor limit of its own (plan parameter nofile, 0 = none): a descriptor
	 * that is never closed shows up as EMFILE after a bounded number of opens */
	{
		int64_t lim = w.plan.ipar("nofile", 0);
		if (lim > 0 && (int64_t)w.cur->fds.size() >= lim) {
			probe(P_OPEN_FAULT);
			ev("open %s -> -1 EMFILE (%zu descriptors open, limit %lld)", path, w.cur->fds.size(), (long long)lim);
			errno = EMFILE;
			return -1;
		}
	}
	std::shared_ptr<FileObj> f = fs_lookup(path);
	if (!f) {
		if (flags & O_CREAT) {
			e = sysfault_check("creat");
			if (e) {
				errno = e;
				return -1;
			}
			f = std::make_shared<FileObj>();
			f->path = path;
			f->writable_created = true;
			w.fs[path] = f;
		} else {
			probe(P_OPEN_ENOENT);
			ev("open %s -> ENOENT", path);
			errno = ENOENT;
			return -1;
		}
	}
	if (flags & O_TRUNC)
		f->data.clear();
	auto o = std::make_shared<FdObj>();
	o->kind = FdObj::FILE_;
	o->f = f;
	o->oflags = flags;
	int fd = fd_alloc(w.cur, o);
	ev("open %s flags=%#x -> %d (%zu bytes)", path, flags & (O_ACCMODE | O_CREAT | O_TRUNC), fd, f->data.size());
	return fd;
}

int __wrap_open(const char *path, int flags, ...)
{
	if (!g_active || !W) {
		va_list ap;
		va_start(ap, flags);
		int mode = va_arg(ap, int);
		va_end(ap);
		return __real_open(path, flags, mode);
	}
	return sim_open(path, flags);
}
int __wrap_open64(const char *path, int flags, ...)
{
	if (!g_active || !W) {
		va_list ap;
		va_start(ap, flags);
		int mode = va_arg(ap, int);
		va_end(ap);
		return __real_open(path, flags, mode);
	}
	return sim_open(path, flags);
}

int __wrap_close(int fd)
{
	if (!g_active || !W)
		return __real_close(fd);
	World &w = *W;
	auto it = w.cur->fds.find(fd);
	if (it == w.cur->fds.end()) {
		ev("close %d -> EBADF (pid %d)", fd, w.cur->pid);
		if (w.plan.engine == "sort")
			flag(F_FD_MISUSE, "close of fd %d which is not open in pid %d", fd, w.cur->pid);
		errno = EBADF;
		return -1;
	}
	ev("close %d (pid %d)", fd, w.cur->pid);
	w.cur->fds.erase(it);
	return 0;
}

static void fill_stat(struct stat *st, const FileObj &f)
{
	memset(st, 0, sizeof(*st));
	st->st_mode = S_IFREG | 0644;
	st->st_size = (off_t)f.data.size();
	st->st_nlink = 1;
	st->st_blksize = 4096;
	st->st_blocks = (f.data.size() + 511) / 512;
}

int __wrap_fstat(int fd, struct stat *st)
{
	if (!g_active || !W)
		return __real_fstat(fd, st);
	auto o = fd_get(fd);
	if (!o) {
		errno = EBADF;
		return -1;
	}
	int e = sysfault_check("fstat");
	if (e) {
		probe(P_FSTAT_FAULT);
		ev("fstat %d -> -1 errno=%d (fault)", fd, e);
		errno = e;
		return -1;
	}
	if (o->kind == FdObj::FILE_) {
		fill_stat(st, *o->f);
		ev("fstat %d -> size %zu", fd, o->f->data.size());
		return 0;
	}
	if (o->kind == FdObj::REAL)
		return __real_fstat(o->realfd, st);
	memset(st, 0, sizeof(*st));
	st->st_mode = S_IFIFO | 0600;
	return 0;
}
int __wrap_fstat64(int fd, struct stat *st) { return __wrap_fstat(fd, st); }

int __wrap_stat(const char *path, struct stat *st)
{
	if (!g_active || !W)
		return __real_stat(path, st);
	probe(P_STAT);
	auto f = fs_lookup(path);
	if (!f) {
		/* directories of the zone database exist */
		struct stat rs;
		if (passthru_path(std::string(path) + "/") && __real_stat(path, &rs) == 0) {
			*st = rs;
			return 0;
		}
		ev("stat %s -> ENOENT", path);
		errno = ENOENT;
		return -1;
	}
	fill_stat(st, *f);
	ev("stat %s -> size %zu", path, f->data.size());
	return 0;
}
int __wrap_stat64(const char *path, struct stat *st) { return __wrap_stat(path, st); }
int __wrap_lstat(const char *path, struct stat *st) { return __wrap_stat(path, st); }

off_t __wrap_lseek(int fd, off_t off, int whence)
{
	if (!g_active || !W)
		return __real_lseek(fd, off, whence);
	auto o = fd_get(fd);
	if (!o || o->kind != FdObj::FILE_) {
		errno = o ? ESPIPE : EBADF;
		return -1;
	}
	off_t base = whence == SEEK_SET ? 0 : whence == SEEK_CUR ? (off_t)o->pos : (off_t)o->f->data.size();
	if (base + off < 0) {
		errno = EINVAL;
		return -1;
	}
	o->pos = (size_t)(base + off);
	return (off_t)o->pos;
}

int __wrap_unlink(const char *path)
{
	if (!g_active || !W)
		return __real_unlink(path);
	probe(P_UNLINK);
	auto it = W->fs.find(path);
	if (it == W->fs.end() || !it->second->exists) {
		ev("unlink %s -> ENOENT", path);
		errno = ENOENT;
		return -1;
	}
	it->second->exists = false;
	ev("unlink %s", path);
	return 0;
}

int __wrap_posix_fadvise(int fd, off_t a, off_t b, int adv)
{
	if (!g_active || !W)
		return __real_posix_fadvise(fd, a, b, adv);
	(void)a;
	(void)b;
	(void)adv;
	return fd_get(fd) ? 0 : EBADF;
}

/* ---- mmap ---- */
void *__wrap_mmap(void *addr, size_t len, int prot, int flags, int fd, off_t off)
{
	if (!g_active || !W)
		return __real_mmap(addr, len, prot, flags, fd, off);
	if (flags & MAP_ANONYMOUS) {
		int e = sysfault_check("mmap_anon");
		if (e) {
			probe(P_MMAP_FAULT);
			errno = e;
			return MAP_FAILED;
		}
		probe(P_ANON_MMAP);
		char *p = guarded_alloc(len, true, nullptr);
		ev("mmap anon %zu", len);
		if (!p) {
			errno = ENOMEM;
			return MAP_FAILED;
		}
		return p;
	}
	auto o = fd_get(fd);
	if (!o || o->kind != FdObj::FILE_) {
		errno = EBADF;
		return MAP_FAILED;
	}
	int e = sysfault_check("mmap");
	if (e) {
		probe(P_MMAP_FAULT);
		ev("mmap fd %d -> MAP_FAILED errno=%d (fault)", fd, e);
		errno = e;
		return MAP_FAILED;
	}
	if (len == 0) {
		errno = EINVAL;
		return MAP_FAILED;
	}
	probe(P_FILE_MMAP);
	std::string content = (size_t)off < o->f->data.size() ? o->f->data.substr((size_t)off) : std::string();
	/* the program sees min(len, file size) bytes of file followed by inaccessible slack */
	size_t vis = std::min(len, content.size());
	char *p = guarded_alloc(vis, false, &content);
	ev("mmap fd %d len=%zu filesize=%zu", fd, len, o->f->data.size());
	if (!p) {
		errno = ENOMEM;
		return MAP_FAILED;
	}
	if (!(prot & PROT_WRITE))
		; /* leave writable: a write to a read-only image is caught by the image hash below */
	return p;
}
void *__wrap_mmap64(void *addr, size_t len, int prot, int flags, int fd, off_t off)
{
	return __wrap_mmap(addr, len, prot, flags, fd, off);
}

int __wrap_munmap(void *addr, size_t len)
{
	if (!g_active || !W)
		return __real_munmap(addr, len);
	for (size_t i = 0; i < W->maps.size(); i++) {
		Mapping &m = W->maps[i];
		if (m.base == addr) {
#if SIM_ASAN
			__asan_unpoison_memory_region(m.base, pgup(m.len ? m.len : 1));
#endif
			/* keep the address range reserved and inaccessible: use after unmap faults */
			mprotect(m.real_base, m.real_len, PROT_NONE);
			ev("munmap %s %zu", m.anon ? "anon" : "file", len);
			W->maps.erase(W->maps.begin() + i);
			return 0;
		}
	}
	ev("munmap of unknown region");
	errno = EINVAL;
	return -1;
}

/* ---- stdio on simulated files (zone map compiler, locale) ---- */
struct CookieFile {
	std::shared_ptr<FileObj> f;
	size_t pos;
};
static ssize_t ck_read(void *c, char *buf, size_t n)
{
	CookieFile *k = (CookieFile *)c;
	size_t rem = k->f->data.size() - std::min(k->pos, k->f->data.size());
	n = std::min(n, rem);
	memcpy(buf, k->f->data.data() + k->pos, n);
	k->pos += n;
	return (ssize_t)n;
}
static int ck_seek(void *c, off64_t *off, int whence)
{
	CookieFile *k = (CookieFile *)c;
	off64_t base = whence == SEEK_SET ? 0 : whence == SEEK_CUR ? (off64_t)k->pos : (off64_t)k->f->data.size();
	if (base + *off < 0)
		return -1;
	k->pos = (size_t)(base + *off);
	*off = (off64_t)k->pos;
	return 0;
}
static int ck_close(void *c)
{
	delete (CookieFile *)c;
	return 0;
}
FILE *__wrap_fopen(const char *path, const char *mode)
{
	if (!g_active || !W)
		return __real_fopen(path, mode);
	probe(P_FOPEN);
	int e = sysfault_check("open");
	if (e) {
		errno = e;
		return NULL;
	}
	if (mode[0] != 'r') {
		flag(F_UNSIM, "fopen(%s, %s) for writing is not modelled", path, mode);
		errno = EACCES;
		return NULL;
	}
	auto f = fs_lookup(path);
	if (!f) {
		ev("fopen %s -> ENOENT", path);
		errno = ENOENT;
		return NULL;
	}
	ev("fopen %s (%zu bytes)", path, f->data.size());
	CookieFile *k = new CookieFile{f, 0};
	cookie_io_functions_t io = {ck_read, NULL, ck_seek, ck_close};
	return fopencookie(k, "r", io);
}
FILE *__wrap_fopen64(const char *path, const char *mode) { return __wrap_fopen(path, mode); }

/* ---- clock ---- */
static void clock_tick(void)
{
	World &w = *W;
	int64_t n = w.clock_calls++;
	for (auto &j : w.plan.clock.jumps)
		if (j.first == n) {
			w.now_s = j.second;
			probe(P_CLOCK_JUMP);
		}
}
int __wrap_gettimeofday(struct timeval *tv, void *tz)
{
	if (!g_active || !W)
		return __real_gettimeofday(tv, tz);
	World &w = *W;
	probe(P_CLOCK_READS);
	clock_tick();
	if (w.plan.clock.fail) {
		probe(P_CLOCK_FAIL);
		ev("gettimeofday -> -1");
		errno = EPERM;
		return -1;
	}
	tv->tv_sec = (time_t)w.now_s;
	tv->tv_usec = (suseconds_t)w.now_us;
	ev("gettimeofday -> %lld.%06lld", (long long)w.now_s, (long long)w.now_us);
	w.now_us += w.plan.clock.step_us;
	w.now_s += w.now_us / 1000000;
	w.now_us %= 1000000;
	return 0;
}
time_t __wrap_time(time_t *t)
{
	if (!g_active || !W)
		return __real_time(t);
	World &w = *W;
	probe(P_CLOCK_READS);
	clock_tick();
	if (w.plan.clock.fail) {
		probe(P_CLOCK_FAIL);
		ev("time -> -1");
		if (t)
			*t = (time_t)-1;
		return (time_t)-1;
	}
	ev("time -> %lld", (long long)w.now_s);
	time_t r = (time_t)w.now_s;
	w.now_us += w.plan.clock.step_us;
	w.now_s += w.now_us / 1000000;
	w.now_us %= 1000000;
	if (t)
		*t = r;
	return r;
}
int __wrap_clock_gettime(clockid_t c, struct timespec *ts)
{
	(void)c;
	struct timeval tv;
	if (__wrap_gettimeofday(&tv, NULL) < 0)
		return -1;
	ts->tv_sec = tv.tv_sec;
	ts->tv_nsec = tv.tv_usec * 1000;
	return 0;
}

/* ---- environment ---- */
char *__wrap_getenv(const char *name)
{
	if (!g_active || !W)
		return __real_getenv(name);
	probe(P_GETENV);
	auto it = W->env.find(name);
	if (it == W->env.end()) {
		ev("getenv %s -> NULL", name);
		return NULL;
	}
	ev("getenv %s -> %s", name, it->second.c_str());
	auto &slot = W->env_store[name];
	if (!slot)
		slot.reset(new std::string(it->second));
	return &(*slot)[0];
}

/* ---- libc time and locale facilities: answered from the simulated settings,
 * and counted, so that a stray use is observable ---- */
struct tm *__wrap_localtime(const time_t *t)
{
	if (g_active && W) {
		probe(P_LIBC_TIME);
		ev("localtime");
	}
	return __real_localtime(t);
}
struct tm *__wrap_localtime_r(const time_t *t, struct tm *tm)
{
	if (g_active && W) {
		probe(P_LIBC_TIME);
		ev("localtime_r");
	}
	return __real_localtime_r(t, tm);
}
time_t __wrap_mktime(struct tm *tm)
{
	if (g_active && W) {
		probe(P_LIBC_TIME);
		ev("mktime");
	}
	return __real_mktime(tm);
}
void __wrap_tzset(void)
{
	if (g_active && W) {
		probe(P_LIBC_TIME);
		ev("tzset");
	}
	__real_tzset();
}
static std::string sim_locale_from_env(void)
{
	for (const char *k : {"LC_ALL", "LC_TIME", "LANG"}) {
		auto it = W->env.find(k);
		if (it != W->env.end() && !it->second.empty())
			return it->second;
	}
	return "C";
}
char *__wrap_setlocale(int cat, const char *loc)
{
	if (!g_active || !W)
		return __real_setlocale(cat, loc);
	probe(P_LIBC_LOCALE);
	ev("setlocale %d %s", cat, loc ? loc : "(null)");
	if (loc && (cat == LC_ALL || cat == LC_TIME)) {
		std::string want = *loc ? std::string(loc) : sim_locale_from_env();
		W->locale_name = want;
		W->locale_active = !(want == "C" || want == "POSIX");
	}
	static char ret[64];
	snprintf(ret, sizeof(ret), "%s", W->locale_active ? W->locale_name.c_str() : "C");
	return ret;
}
size_t __wrap_strftime(char *s, size_t max, const char *fmt, const struct tm *tm)
{
	if (!g_active || !W)
		return __real_strftime(s, max, fmt, tm);
	probe(P_LIBC_LOCALE);
	ev("strftime %s", fmt);
	if (!W->locale_active)
		return __real_strftime(s, max, fmt, tm);
	/* a simulated non-C locale: names carry the locale tag so that they differ */
	std::string out;
	for (const char *p = fmt; *p; p++) {
		if (*p == '%' && p[1] && strchr("aAbBhp", p[1])) {
			char one[3] = {'%', p[1], 0}, tmp[128];
			__real_strftime(tmp, sizeof(tmp), one, tm);
			out += W->locale_name.substr(0, 2) + "~" + tmp;
			p++;
		} else if (*p == '%' && p[1]) {
			char one[3] = {'%', p[1], 0}, tmp[128];
			__real_strftime(tmp, sizeof(tmp), one, tm);
			out += tmp;
			p++;
		} else {
			out += *p;
		}
	}
	if (out.size() + 1 > max)
		return 0;
	memcpy(s, out.c_str(), out.size() + 1);
	return out.size();
}
char *__wrap_strptime(const char *s, const char *fmt, struct tm *tm)
{
	if (g_active && W) {
		probe(P_LIBC_LOCALE);
		ev("strptime %s", fmt);
	}
	return __real_strptime(s, fmt, tm);
}

/* ---- allocator ---- */
static bool alloc_should_fail(void)
{
	if (!g_active || !W || !W->alloc_armed)
		return false;
	int64_t n = ++W->alloc_calls;
	if (n == W->alloc_fail_at) {
		probe(P_MALLOC_FAULT);
		ev("alloc #%lld -> NULL (fault)", (long long)n);
		return true;
	}
	return false;
}
/* one address-space budget for every build: a request beyond it fails like malloc does under a limit, instead of
 * depending on how much memory the machine happens to have free */
static const size_t ALLOC_CAP = (size_t)4096 << 20;

void *__wrap_malloc(size_t n)
{
	if (n > ALLOC_CAP || alloc_should_fail()) {
		errno = ENOMEM;
		return NULL;
	}
	return __real_malloc(n);
}
void *__wrap_calloc(size_t a, size_t b)
{
	if ((b && a > ALLOC_CAP / b) || alloc_should_fail()) {
		errno = ENOMEM;
		return NULL;
	}
	return __real_calloc(a, b);
}
void *__wrap_realloc(void *p, size_t n)
{
	if (n > ALLOC_CAP || alloc_should_fail()) {
		errno = ENOMEM;
		return NULL;
	}
	return __real_realloc(p, n);
}

} /* extern "C" */

namespace sim {

void arm_alloc_faults(bool on)
{
	if (W) {
		W->alloc_armed = on;
		W->alloc_calls = 0;
	}
}
/* engines that run library code in-incarnation may inspect the fs afterwards */
bool fs_get(const std::string &path, std::string &out)
{
	if (!W)
		return false;
	auto it = W->fs.find(path);
	if (it == W->fs.end() || !it->second->exists)
		return false;
	out = it->second->data;
	return true;
}
void fs_put(const std::string &path, const std::string &data)
{
	if (!W)
		return;
	auto f = std::make_shared<FileObj>();
	f->path = path;
	f->data = data;
	W->fs[path] = f;
}
int open_fd_count(void)
{
	int n = 0;
	if (W && W->tool)
		for (auto &kv : W->tool->fds)
			if (kv.second->kind == FdObj::FILE_)
				n++;
	return n;
}
void set_sysfault(const std::string &kind, int64_t nth, int err)
{
	if (W)
		W->sysfault[kind][nth] = err;
}
void clear_sysfaults(void)
{
	if (W) {
		W->sysfault.clear();
		W->syscount.clear();
	}
}
void set_env(const std::string &k, const std::string &v)
{
	if (W) {
		W->env[k] = v;
		W->env_store.erase(k);
	}
}

void install_plan(const Plan &p, const Limits &lim)
{
	W = new World();
	World &w = *W;
	w.plan = p;
	g_max_events = lim.max_events;
	for (auto &f : p.files) {
		auto o = std::make_shared<FileObj>();
		o->path = f.path;
		o->data = f.data;
		o->exists = !f.absent;
		w.fs[f.path] = o;
	}
	auto t = std::make_unique<Proc>();
	t->pid = 1;
	t->prog = "tool";
	if (!p.ipar("stdin_closed", 0)) {
		auto in = std::make_shared<FdObj>();
		in->kind = FdObj::STREAM;
		t->fds[0] = in;
	}
	for (int fd = 1; fd <= 2; fd++) {
		auto o = std::make_shared<FdObj>();
		o->kind = FdObj::REAL;
		o->realfd = fd;
		t->fds[fd] = o;
	}
	w.tool = w.cur = t.get();
	w.procs.push_back(std::move(t));
	w.now_s = p.clock.start;
	w.now_us = p.clock.usec;
	w.env = p.env;
	/* libc internals must agree with the simulated environment */
	clearenv();
	for (auto &kv : p.env)
		setenv(kv.first.c_str(), kv.second.c_str(), 1);
	__real_tzset();
	/* faults from the plan */
	for (auto &o : p.ops) {
		if (o.kind == "sysfault")	/* s = call kind, a = {nth, errno} */
			w.sysfault[o.s][o.arg(0)] = (int)o.arg(1);
		else if (o.kind == "allocfault") {
			w.alloc_fail_at = o.arg(0);
			w.alloc_armed = o.arg(1, 1) != 0;
		}
	}
	g_active = true;
}

} /* namespace sim */
