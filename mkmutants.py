#!/usr/bin/env python3
"""Regenerates /verif/mutants/<prop>-revert-<sha>.patch: for every `fixed` entry of known_findings.json the
reverse of its fix commit as a forward patch against /repo's HEAD (skipped where later fixes touched the
same lines).  Run only while nothing else is using /repo's working tree."""
import json, subprocess, os, sys, glob

V = os.path.dirname(os.path.abspath(__file__))
st = subprocess.run(["git", "-C", "/repo", "status", "--porcelain", "--untracked-files=no"], capture_output=True, text=True).stdout
if st.strip():
    sys.exit("refusing: /repo has uncommitted changes")
for f in glob.glob(os.path.join(V, "mutants", "*-revert-*.patch")):
    os.remove(f)
seen = set()
for e in json.load(open(os.path.join(V, "known_findings.json"))):
    if e["status"] != "fixed" or e["commit"] in seen:
        continue
    c = e["commit"]
    seen.add(c)
    p = subprocess.run(["git", "-C", "/repo", "show", "--format=", c], capture_output=True, text=True).stdout
    tmp = "/tmp/verif-rev.patch"
    open(tmp, "w").write(p)
    name = "%s-revert-%s" % (e["property"], c)
    if subprocess.run(["git", "-C", "/repo", "apply", "-R", "--check", tmp], capture_output=True).returncode == 0:
        subprocess.run(["git", "-C", "/repo", "apply", "-R", tmp])
        d = subprocess.run(["git", "-C", "/repo", "diff"], capture_output=True, text=True).stdout
        subprocess.run(["git", "-C", "/repo", "checkout", "--", "."])
        open(os.path.join(V, "mutants", name + ".patch"), "w").write(d)
        print("ok  ", name, e["id"])
    else:
        print("skip", name, e["id"], "(later fixes touch the same lines)")
    os.remove(tmp)
