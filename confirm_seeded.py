#!/usr/bin/env python3
"""confirm_seeded.py <round> <worktree-prefix> <id>... -- re-confirm sub-agent changes in their scratch worktrees

For each id: the worktree <prefix><id> must hold patch.diff, demo.sh, notes.md.  Steps (all in the scratch
worktree, never in /repo): clean checkout, apply patch, build, full test suite, demo (must exit 1);
revert, build, demo (must exit 0).  On success the three files plus meta.json go to /verif/seeded/<id>/.
"""
import sys, os, subprocess, json, shutil, re, tempfile
from concurrent.futures import ThreadPoolExecutor

VERIF = os.path.dirname(os.path.abspath(__file__))


def sh(cmd, cwd, timeout=1800):
    r = subprocess.run(cmd, cwd=cwd, shell=True, stdout=subprocess.PIPE, stderr=subprocess.STDOUT, timeout=timeout)
    return r.returncode, r.stdout.decode(errors="replace")


def confirm(rnd, prefix, wid):
    w = prefix + wid
    out = {"id": wid, "ok": False, "log": []}
    for f in ("patch.diff", "demo.sh", "notes.md"):
        if not os.path.exists(os.path.join(w, f)):
            out["log"].append("missing " + f)
            return out
    keep = tempfile.mkdtemp(prefix="seedkeep-")
    for f in ("patch.diff", "demo.sh", "notes.md"):
        shutil.copy(os.path.join(w, f), keep)
    head = sh("git rev-parse --short HEAD", w)[1].strip()
    sh("git checkout -- . ", w)
    rc, o = sh("git apply --check %s/patch.diff && git apply %s/patch.diff" % (keep, keep), w)
    if rc:
        out["log"].append("patch does not apply: " + o[-300:])
        return out
    files = [l.split()[-1] for l in sh("git diff --stat", w)[1].splitlines() if "|" in l]
    files = [l.split("|")[0].strip() for l in sh("git diff --stat", w)[1].splitlines() if "|" in l]
    rc, o = sh("test -x ./libtool || ./config.status libtool >/dev/null 2>&1; make -s -j4 2>&1 | tail -5", w)
    rc1, o1 = sh("make -k check -j6 2>&1 | grep -E '^# (TOTAL|PASS|FAIL|ERROR)' | tr '\\n' ' '", w)
    m = re.search(r"TOTAL:\s*(\d+).*PASS:\s*(\d+).*FAIL:\s*(\d+).*ERROR:\s*(\d+)", o1)
    tests_ok = bool(m) and m.group(1) == m.group(2) and m.group(3) == "0" and m.group(4) == "0"
    drc_with, dlog = sh("bash %s/demo.sh %s" % (keep, w), keep, timeout=900)
    sh("git apply -R %s/patch.diff" % keep, w)
    sh("make -s -j4 2>&1 | tail -5", w)
    drc_without, dlog2 = sh("bash %s/demo.sh %s" % (keep, w), keep, timeout=900)
    out["log"] += ["tests-with: " + o1.strip(), "demo-with-rc: %d" % drc_with, "demo-without-rc: %d" % drc_without]
    if not (tests_ok and drc_with == 1 and drc_without == 0):
        out["log"].append("NOT CONFIRMED; demo output with: " + dlog[-400:] + " || without: " + dlog2[-400:])
        shutil.rmtree(keep, ignore_errors=True)
        return out
    prop = wid.split("-")[0]
    dst = os.path.join(VERIF, "seeded", wid)
    os.makedirs(dst, exist_ok=True)
    for f in ("patch.diff", "demo.sh", "notes.md"):
        shutil.copy(os.path.join(keep, f), dst)
    notes = open(os.path.join(keep, "notes.md"), errors="replace").read()
    meta = {
        "property": prop, "round": rnd,
        "origin": "independent sub-agent given only the property record, a list of mechanisms used in earlier rounds to stay away from, and a scratch worktree (%s)" % w,
        "files_touched": files,
        "needs_to_manifest": "(see notes.md)",
        "confirmed_by_me": {
            "where": "scratch worktree %s (git worktree of /repo at %s plus build products)" % (w, head),
            "ran": ["git checkout -- .", "git apply patch.diff", "make -s -j4", "make -k check -j6", "bash demo.sh <tree>",
                    "git apply -R patch.diff", "make -s -j4", "bash demo.sh <tree>"],
            "outcome": ["build-with: ok", "tests-with: " + o1.strip(), "demo-with-rc: %d" % drc_with, "demo-without-rc: %d" % drc_without],
        },
        "also_checks": [], "expected": "caught",
    }
    with open(os.path.join(dst, "meta.json"), "w") as f:
        json.dump(meta, f, indent=1)
    shutil.rmtree(keep, ignore_errors=True)
    out["ok"] = True
    return out


def main():
    rnd = int(sys.argv[1])
    prefix = sys.argv[2]
    ids = sys.argv[3:]
    with ThreadPoolExecutor(max_workers=5) as ex:
        for r in ex.map(lambda i: confirm(rnd, prefix, i), ids):
            print(r["id"], "CONFIRMED" if r["ok"] else "FAILED", " | ".join(r["log"]))
            sys.stdout.flush()


if __name__ == "__main__":
    main()
