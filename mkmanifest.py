#!/usr/bin/env python3
"""Regenerates MANIFEST.json from the table below; run after adding a check."""
import json, subprocess, os

HERE = os.path.dirname(os.path.abspath(__file__))

NA = {
    "C01": "pure function of (day, source calendar, target calendar): no schedule, clock, fault or history for a simulator to vary (DESIGN.md section 8)",
    "C02": "pure function of (day, calendar chain, format string); nothing environmental to simulate (DESIGN.md section 8)",
    "C03": "pure function of (date, n) (DESIGN.md section 8)",
    "C04": "pure function of (date, n) (DESIGN.md section 8)",
    "C05": "pure function of (A, B, format) (DESIGN.md section 8)",
    "C06": "pure function of (A, B, format) (DESIGN.md section 8)",
    "C07": "pure function of (date, n) (DESIGN.md section 8)",
    "C09": "pure function of (value, format, name table); loading of the name table is covered under C20 (DESIGN.md section 8)",
    "C10": "quantifies over input bytes only (fuzzing, a different family); the reader-window facet is reached by C18's engine with sanitizer and guard pages on (DESIGN.md section 8)",
    "C11": "pure function of (date-time, n) (DESIGN.md section 8)",
    "C14": "built-in table, pure function of the instant (DESIGN.md section 8)",
    "C15": "pure function of (FIRST, INC, LAST, skips); termination depends on no fault or schedule (DESIGN.md section 8)",
    "C16": "pure function of (value, targets) (DESIGN.md section 8)",
    "C17": "pure function of (expression, line); chunking/independence facet rides in C13's dgrep histories (DESIGN.md section 8)",
}
PENDING = {
}

CHECKS = {
    "C18": {
        "engine": "stream", "category": "exploration", "design_ref": "DESIGN.md section 3",
        "technique": "deterministic simulation: seeded read() delivery schedules and read faults against forked tool incarnations, per-line and schedule-independence oracles",
        "text": "Seeded search over (byte stream, read() schedule, optional read error) for dconv/dadd/dround -S with the real reader compiled at three window sizes (shipped 16 MiB/16384 lines/4 KiB, 2 KiB/64/64, 64 B/4/5) under ASan and without; every line boundary, refill, line-cap and window-full transition is reached thousands of times per run. Oracles: output equals the concatenation of one-line runs (terminators lenient), equals the model text for generator-known tokens, identical under the one-read schedule; read targets stay inside the window mapping. Sampling, not proof. A third of the plans take tool and options from a seeded invocation grammar (any option set of the three filters, one input format out of 34, random output formats, zones, --base, -E, 7..40 -i formats); there the replacement text of every value is checked against what the same tool prints for that value as an argument, and every fault-free plan is executed twice (generated schedule, one-read delivery) and compared byte for byte. Switches are repeated and respelled (-S -S, -SS, --sed-mode), day-of-year dates close a line, format pairs share a needle character.",
        "note": "Trusted: the simulated read()/mmap() (guard-paged, prefix-delivery semantics of POSIX read), the 20-line civil calendar model used for token replacement texts, the C-locale. Lines containing near-miss tokens are judged differentially only. Read errors use a relaxed oracle (line-prefix); EINTR/EAGAIN are injected for reach although the tools install no handlers.",
    },
}

CHECKS.update({
    "C12": {
        "engine": "zone", "category": "exploration", "design_ref": "DESIGN.md section 5",
        "technique": "deterministic simulation: zone files through a simulated file layer, seeded op sequences on stateful zone handles, reference model of the TZif table as oracle",
        "text": "Every file of the installed zone database (598 files, every transition -1/0/+1 s, forward and inverse, in seeded order) plus seeded synthetic TZif files (v1/v2/v3, 0..3000 transitions, >255, no-op transitions, v1 block differing from the 64-bit block) are served from the simulated file system; lookups run as op sequences on a handle with history and on a fresh handle, each answer compared with an independent table model; every fifth plan also runs dconv --zone/--from-zone and dzone --next --prev on the same file. Hangs are caught by a CPU budget. Sampling over op orders, exhaustive over the transitions of the installed database. dzone --prev is judged in the first range of the table as well (right-hand side only). Tool-level runs deliver their values as arguments, plain stdin lines, sed mode and empty mode, under zone paths of 9 to 1000 bytes; one plan kind runs dzone over 24..40 copies of the zone in a simulated process limited to 16 descriptors. Every third tool-level plan asks within 14 h of an inserted leap second; bare times are converted on the day of a transition with --base carrying a time of day.",
        "note": "Trusted: the 60-line reference TZif reader and civil-from-epoch formatter in sim/models.h. Instants before the first listed transition prime state but their value is not judged (the statement starts at the first transition). The inverse clause is judged on tables whose transitions are at least 26 h apart (all installed zones qualify). Tool-level output is compared only for quarter-hour offsets (%Z resolution) and years 1601..3800.",
    },
    "C13": {
        "engine": "hist", "category": "exploration", "design_ref": "DESIGN.md section 4",
        "technique": "deterministic simulation: N-input incarnation vs N one-input incarnations under one simulated clock; op sequences on a zone handle vs fresh-handle answers",
        "text": "Histories: for 37 line-independent invocations of dconv/dadd/dround/ddiff/dgrep/dzone a seeded history of 1..700 values (arguments or stdin lines, one line per read()) must print exactly the concatenation of the one-value runs; values are drawn to prime known state (before-first-transition, index >255, missing fields, junk between good values, >255 searches, reader window reuse in the 64-byte-window build). Handle level: after any op sequence a zone handle and its zif_copy must answer like a freshly opened handle, on all installed zones and synthetic ones. Half of the histories draw the invocation from the same seeded grammar instead of the table (overlapping -i families, -E on plain stdin, 12..40-item output formats, zone pairs whose first name is a prefix of the second). The table also holds four entries for the strptime helper (libc strptime seam is a pass-through) and fixed-offset zone specs; long histories in the small-window builds are delivered one line per read or as fast as asked for.",
        "note": "Trusted: forked incarnations really start from fresh static state. Histories with clock-dependent values (time without date, year-month) run under a frozen clock, because the moment `now' is first needed legitimately differs between a long run and a one-value run. dzone histories use well-formed dates only (dzone takes anything else for a zone name).",
    },
})

CHECKS.update({
    "C19": {
        "engine": "files", "category": "fault_enumeration", "design_ref": "DESIGN.md section 6",
        "technique": "deterministic simulation with fault injection on a simulated file layer: seeded fault sequences (truncation, corrupted header fields, torn bytes, failing open/fstat/mmap/malloc/write) against the real loaders and map compiler under ASan and guard pages; compiled-map lookups against the source as reference model",
        "text": "Loader robustness: images of the installed zone database and maps produced by the real compiler are damaged by seeded fault sequences placed at header fields, block boundaries and record ends, then opened, queried and closed inside one incarnation; the oracle is structural (returns within a CPU budget, no sanitizer report, no fault on the guard page behind the file image, returned strings usable). Faithfulness: for generated sources with variable-length keys and zone names that are prefixes of each other every key, each strict prefix, one-character extensions and sort-order neighbours are looked up in the compiled map and compared with the source; write faults in the compiler must leave either nothing or a complete map. Seeded enumeration of fault positions, not exhaustive. Tool level: several MAP:KEY specs (two maps m and mm, keys with colons, zone names that are prefixes of each other) resolved by one dzone process must agree with one process per plain zone name. Synthetic images with all 256 type indices and few transitions; a map refused thirty times in a process limited to 20 descriptors must not keep a good map from loading; malformed lines anywhere in a map source.",
        "note": "Trusted: the simulated mmap (file image + ASan-poisoned slack + PROT_NONE guard; in the gcc build only the guard page), the allocator_may_return_null setting (huge allocations fail like malloc does). After a content fault the values returned are not judged. Sources are well-formed and ascending as tzmap check demands; zone name pools stay below 64 KiB (the format's 16-bit offset). A descriptor left open after a failed load is counted as a diagnostic, not a violation.",
    },
})

CHECKS.update({
    "C20": {
        "engine": "env", "category": "exploration", "design_ref": "DESIGN.md section 7",
        "technique": "deterministic simulation of the process environment: simulated clock (start, drift, jumps, failure), simulated TZ/LANG/LC_* with libc time/locale seams, locale file behind the simulated file layer; same invocation across environments must agree; locale setter op sequences against a two-slot model",
        "text": "Each seeded invocation with fully specified input (or with --base) runs as a forked incarnation under a baseline and several simulated environments that differ in the clock only, TZ only, LC_* only and in everything; stdout and exit status must be identical. Negative controls (missing fields, no --base) must differ across clocks or the check reports a dead seam (exit 2) instead of passing. Locale direction: op sequences of the two setters, resets and failing setters (unknown name, unreadable or torn file) with parse/format probes against a two-slot model built from data/locale, and --from-locale A --locale B on dconv/dadd/dround in both option orders (all 274x274 pairs in the thorough tier) against parse-with-A then print-with-B. 30% of the invocations come from the seeded grammar restricted to inputs that determine every field or carry --base (in every spelling: date, date-time, @epoch, ISO week, day of year); values that begin like the special keywords (now, today, date, time ...) in literal-prefixed formats of every length residue are included.",
        "note": "Trusted: the simulated clock and getenv seams (validated by the negative controls in every run), the civil weekday model. Only C/POSIX locales are installed, so libc locale leakage is made observable by seams that tag names with the simulated locale once setlocale(LC_TIME|LC_ALL, \"\") has been called. Excluded by the statement's own wording: now/today keywords, one-argument dseq, zone `localtime', 2-digit years and time-only values with a zone unless --base is given. The `strptime' helper tool (a wrapper around libc strptime) is not run. Parse probes are judged by the model only for locales whose month names are ASCII and prefix-free; all others differentially against freshly set tables.",
    },
})

CHECKS.update({
    "C08": {
        "engine": "sort", "category": "exploration", "design_ref": "DESIGN.md section 7b",
        "technique": "deterministic simulation of a process pipeline: dsort's real main against simulated pipes, vfork children and stub sort/cut processes stepped by a seeded scheduler (pipe capacities, short writes, interleavings); permutation, order and liveness oracles",
        "text": "Scoped claim. What is simulated is the datesort clause: dsort computes a key per line, writes line and key with its own safe_write() into a pipe and relies on descriptor plumbing across two vfork()ed children to terminate. The simulator owns pipes (capacity 1 byte to 64 KiB), accepts as few bytes per write as the plan says, and picks which helper runs next; oracles: stdout is a permutation of the input lines, dated lines of one kind come out in chronological order (reverse with -r) by the generator's own instants, every helper sees EOF and is reaped (no deadlock, no descriptor misuse), and the real dtest agrees with the order of adjacent lines. The order laws of the comparison functions themselves (antisymmetry, transitivity, totality over all calendars) are pure functions of the values and are NOT decided by this technique; only the dtest cross-check touches them. Lines carry dates, date-times with and without UTC offsets, times, month-count-weekday dates and, with 1..40 -i formats, %Y%m%d and %d/%m/%Y stamps. The sort(1) stub parses the argv dsort hands it (-t SEP, -k F[,G], -r, -u) and orders by exactly those keys. Some plans sort under --from-zone with a fixed offset and ask dtest with the same option; every eighth plan sits in a century year or at an end of the supported range.",
        "note": "Trusted: the stub sort(1)/cut(1) (keys as given by -t/-k on the command line dsort builds, bytewise C-locale comparison, last-resort whole-line comparison, -r, -u) -- locale-dependent collation of a real sort on tied keys is not simulated; the vfork emulation (setjmp in the caller's frame, child branch first). Lines containing the separator byte 0x01 are not generated (a pure-input limitation of dsort's protocol). -u is not exercised (output is then not a permutation by design).",
    },
})

ENGINES = {
    "zoneh": ("sim/eng_zone.cc", "zone engine in history mode: handle with history and its copy vs a fresh handle"),
    "stream": ("sim/eng_stream.cc", "seeded stream/schedule generator + incarnation runner + oracles for sed-mode filters"),
    "zone": ("sim/eng_zone.cc", "op sequences on zone handles over simulated TZif files vs. reference table model and fresh handles"),
    "hist": ("sim/eng_hist.cc", "N-input run vs. N single-input incarnations under a jumping simulated clock"),
    "files": ("sim/eng_files.cc", "fault sequences on the simulated file layer for zone/map loaders; map compile/lookup vs. source"),
    "env": ("sim/eng_env.cc", "same invocation under simulated clocks/TZ/locale settings; locale setter op sequences vs. two-slot model"),
    "sort": ("sim/eng_sort.cc", "datesort against simulated pipes, vfork children and stub sort/cut stepped by a seeded scheduler"),
}


def main():
    hooks = subprocess.run(["git", "-C", "/repo", "log", "--format=%H %s"], capture_output=True, text=True).stdout.splitlines()
    hook_commits = [l.split()[0] for l in hooks if " verif hook:" in l]
    checks = []
    for pid, c in sorted(CHECKS.items()):
        checks.append({
            "property_id": pid,
            "quick_cmd": "./verif check %s --tier quick" % pid,
            "thorough_cmd": "./verif check %s --tier thorough" % pid,
            "evidence_file": "/verif/evidence/%s.json" % pid,
            "replay_cmd_template": "./verif replay {path}",
            "engine": c["engine"],
            "level_claimed": {"category": c["category"], "text": c["text"], "design_ref": c["design_ref"]},
            "level_note": c["note"],
            "technique": c["technique"],
        })
    na = dict(NA)
    for k, v in PENDING.items():
        if k not in CHECKS:
            na[k] = v
    used = sorted(set(c["engine"] for c in CHECKS.values()) | ({"zoneh"} if "C13" in CHECKS else set()))
    m = {
        "version": 1,
        "setup_cmd": "./verif build",
        "hooks": {
            "guard": "DATEUTILS_VERIF",
            "enable": "checks compile /repo/lib and /repo/src out of tree into /verif/build with -DDATEUTILS_VERIF (plus -DVERIF_PRCH_NLINES/LLEN/CHUNK for the small-window builds) and link them with -Wl,--wrap seams; /repo's own build never defines the guard",
            "baseline_off_cmd": "make -C /repo -k check",
            "source_commits": hook_commits,
            "add_only": True,
        },
        "engines": [{"name": e, "path": ENGINES[e][0], "serves_properties": sorted(p for p, c in CHECKS.items() if c["engine"] == e or (e == "zoneh" and p == "C13")),
                     "kind_free_text": ENGINES[e][1]} for e in used],
        "checks": checks,
        "notes": "Deterministic simulation with fault injection; one simrun binary per build variant holds every tool main, the real library and the simulator. See DESIGN.md. known_findings.json lists fixed and open findings.",
        "not_applicable": [{"property_id": k, "reason": v} for k, v in sorted(na.items())],
    }
    json.dump(m, open(os.path.join(HERE, "MANIFEST.json"), "w"), indent=1)


if __name__ == "__main__":
    main()
